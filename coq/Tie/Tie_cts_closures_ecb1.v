(* Tie_cts_closures_ecb1.v -- semantic ties of the EcbCs1 decryption and encryption closure bodies (cts/src/ecb_cs1.rs) to Cts.ecb_cs1_dec.
   Proved in stages: ecb_cs1_dec_head (statements up to the bulk decryption over all whole blocks but the last, through
   `blocks.split_at(mid).0`), ecb_cs1_dec_tail (the un-stealing step on the last bs + tail bytes), composed with
   MirLemmas.run_stmts_app; the whole-block case is plain ECB. *)
From BM Require Import Tie.TieLib Tie.ClosureLib Cts Cts_mem Cts_proofs Cts_spec Cts_cs_proofs Cts_dec_proofs Spec Spec_proofs BlockModes_proofs.
From BMGen Require Import Src_cts.
Local Open Scope string_scope.
Local Open Scope list_scope.

Ltac slen' := rewrite ?app_length, ?firstn_length, ?skipn_length, ?zeros_length, ?xor_into_length; first [lia | nia].
Ltac ok_check' := match goal with
 | |- context [in_range ?a ?b] => replace (in_range a b) with true by (symmetry; apply in_range_true; slen')
 | |- context [fits ?a ?b ?c] => replace (fits a b c) with true by (symmetry; apply fits_true; slen')
 | |- context [len_eq ?a ?b] => replace (len_eq a b) with true by (symmetry; apply len_eq_true; slen')
 | |- context [le_ok ?a ?b] => replace (le_ok a b) with true by (symmetry; apply le_ok_true; slen')
 end; cbv beta iota.

Ltac pick_branch :=
  match goal with |- context [as_data ?e (RV (VBoolV ?b))] => change (as_data e (RV (VBoolV b))) with (Some (VBoolV b)) end; cbv beta iota.

Lemma run_if_mid C e c t el rest : rest <> [] ->
  run_stmts (evalC C) e (SExpr (EIf c t el) true :: rest) =
  match evalC C e c with
  | Some (Norm e1 r) =>
      match as_data e1 r with
      | Some (VBoolV b) =>
          match run_block (evalC C) e1 (if b then t else el) with
          | Some (Norm e2 _) => run_stmts (evalC C) e2 rest
          | Some (Ret e2 v) => Some (Ret e2 v)
          | None => None
          end
      | _ => None
      end
  | Some (Ret e1 v) => Some (Ret e1 v)
  | None => None
  end.
Proof.
  intros Hr. destruct rest as [|s0 rest]; [congruence|]. cbn [run_stmts]. rewrite eval_if.
  destruct (evalC C e c) as [[e1 r|e1 v]|]; cbn [bindF]; try reflexivity.
  destruct (as_data e1 r) as [v|]; try reflexivity. destruct v; try reflexivity.
  destruct b; destruct (run_block (evalC C) e1 _) as [[e2 r2|e2 v2]|]; reflexivity.
Qed.

Section EcbCs1DecB.
  Variable C : cipher.
  Let bs := c_bs C.
  Hypothesis bs_pos : 0 < bs.
  Hypothesis D_len : forall x, length x = bs -> length (c_D C x) = bs.
  Let X := bctx C [("ecb_dec", FSem (ecb_dec_sem C))]
                  [("into_chunks::BS", VNat bs); ("Block::<B>::default()", VBlk (zeros bs)); ("B::BlockSize::USIZE", VNat bs); ("try_into::LEN", VNat bs)].

  Definition envA (al : bool) (i o0 o : list N) (nb tl : nat) : env :=
    [("tail", VRef (PBytes (PVar "buf") (nb * bs) tl));
     ("blocks", VRef (PCells (PBlocks (PVar "buf") 0 nb bs) 0 (nb - 1)));
     ("buf", VBuf al i o); ("cipher", VCipher false true);
     ("self", VStruct "Closure" [("buf", VBuf al i o0)])].

  (* the un-stealing step, on a buffer whose first nb - 1 blocks are done *)
  Lemma ecb_cs1_dec_tail (al : bool) (ibp : list (list N)) (il it : list N) (Csp : list (list N)) (ol ot o0 : list N) nb tl :
    all_len bs ibp -> all_len bs Csp -> length il = bs -> length ol = bs ->
    length ibp = nb - 1 -> length Csp = nb - 1 -> 1 <= nb -> length it = tl -> length ot = tl -> 0 < tl < bs ->
    let i := concat ibp ++ il ++ it in let o := concat Csp ++ ol ++ ot in
    let src1 := if al then ol else il in let srct := if al then ot else it in
    let B2 := c_D C (skipn tl (src1 ++ srct)) in
    let B1 := c_D C (firstn tl src1 ++ skipn tl B2) in
    exists e', run_stmts (evalC X) (envA al i o0 o nb tl) (skipn 4 (fn_body cts__ecb_cs1__BlockCipherDecClosure__Closure__call))
                 = Some (Norm e' (RV VUnit))
      /\ lookup "buf" e' = Some (VBuf al i (concat Csp ++ B1 ++ firstn tl B2)).
  Proof.
    intros Hibp HCsp Hil Hol Hk1 Hk2 Hnb1 Hit Hot Htl i o src1 srct B2 B1. unfold block in *.
    assert (Hci : length (concat ibp) = (nb - 1) * bs) by (rewrite (all_len_concat_length bs) by auto; lia).
    assert (Hco : length (concat Csp) = (nb - 1) * bs) by (rewrite (all_len_concat_length bs) by auto; lia).
    assert (HLi : length i = nb * bs + tl) by (unfold i; rewrite !app_length; nia).
    assert (HLo : length o = nb * bs + tl) by (unfold o; rewrite !app_length; nia).
    assert (Hs1 : length src1 = bs) by (unfold src1; destruct al; lia).
    assert (Hst : length srct = tl) by (unfold srct; destruct al; lia).
    assert (ETo : firstn tl (skipn (nb * bs) o) = ot).
    { unfold o. rewrite app_assoc. replace (nb * bs) with (length (concat Csp ++ ol)) by (rewrite app_length; nia).
      rewrite skipn_app_exact by reflexivity. apply firstn_all2. lia. }
    assert (ETi : firstn tl (skipn (nb * bs) i) = it).
    { unfold i. rewrite app_assoc. replace (nb * bs) with (length (concat ibp ++ il)) by (rewrite app_length; nia).
      rewrite skipn_app_exact by reflexivity. apply firstn_all2. lia. }
    assert (ERo : firstn (bs + tl) (skipn ((nb - 1) * bs) o) = ol ++ ot).
    { unfold o. rewrite <- Hco, skipn_app_exact by reflexivity. apply firstn_all2. rewrite app_length. lia. }
    assert (ERi : firstn (bs + tl) (skipn ((nb - 1) * bs) i) = il ++ it).
    { unfold i. rewrite <- Hci, skipn_app_exact by reflexivity. apply firstn_all2. rewrite app_length. lia. }
    assert (Esrc : (if al then ol ++ ot else il ++ it) = src1 ++ srct) by (unfold src1, srct; destruct al; reflexivity).
    assert (Eo : o = concat Csp ++ (ol ++ ot)) by reflexivity.
    assert (ERx : forall x : list N, length x = bs + tl -> firstn (bs + tl) (skipn ((nb - 1) * bs) (concat Csp ++ x)) = x).
    { intros x Hx. rewrite <- Hco, skipn_app_exact by reflexivity. apply firstn_all2. lia. }
    assert (EWx : forall x y : list N, length x = bs + tl -> MirSem.splice ((nb - 1) * bs) (bs + tl) y (concat Csp ++ x) = concat Csp ++ y).
    { intros x y Hx. unfold MirSem.splice. rewrite <- Hco at 1. rewrite firstn_app_exact by reflexivity.
      rewrite skipn_all2 by (rewrite app_length; lia). rewrite app_nil_r. reflexivity. }
    assert (EB2 : B2 = c_D C (skipn tl (src1 ++ srct))) by reflexivity.
    assert (EB1 : B1 = c_D C (firstn tl src1 ++ skipn tl B2)) by reflexivity.
    clearbody i o B1. clearbody B2. clearbody src1 srct. unfold envA. cbn [skipn fn_body cts__ecb_cs1__BlockCipherDecClosure__Closure__call].
    run_prefix 1. fold bs. unfold block in *.
    repeat first [ok_check' | progress (rewrite ?HLo, ?HLi, ?ETo, ?ETi, ?Hot, ?Hit)].
    run_prefix 3. fold bs. unfold block in *.
    repeat first [ok_check' | progress (rewrite ?HLo, ?HLi, ?ETo, ?ETi, ?Hot, ?Hit)].
    replace (nb * bs + tl - (bs + tl)) with ((nb - 1) * bs) by nia.
    run_prefix 1. fold bs. unfold block in *.
    repeat first [ok_check' | progress (rewrite ?HLo, ?HLi)].
    replace (nb * bs + tl - (nb - 1) * bs) with (bs + tl) by nia.
    run_prefix 1. fold bs. unfold block in *.
    repeat first [ok_check' | progress (rewrite ?HLo, ?HLi, ?ERo, ?ERi, ?app_length, ?Hol, ?Hot)].
    replace (bs + tl - bs) with tl by lia.
    run_prefix 1. fold bs. unfold block in *.
    assert (Eb1 : firstn (bs - 0) (skipn 0 (src1 ++ srct)) = src1).
    { cbn [skipn]. rewrite Nat.sub_0_r, <- Hs1, firstn_app_exact by reflexivity. reflexivity. }
    repeat first [ok_check' | progress (rewrite ?HLo, ?HLi, ?ERo, ?ERi, ?Esrc, ?Eb1, ?app_length, ?Hs1, ?Hst)].
    run_prefix 1. fold bs. unfold block in *.
    repeat first [ok_check' | progress (rewrite ?HLo, ?HLi, ?ERo, ?ERi, ?Esrc, ?app_length, ?Hs1, ?Hst)].
    replace (bs + tl - tl) with bs by lia.
    assert (Eb2 : firstn bs (skipn tl (src1 ++ srct)) = skipn tl (src1 ++ srct)) by (apply firstn_all2; rewrite skipn_length, app_length; lia).
    rewrite ?Eb2.
    repeat first [ok_check' | progress (rewrite ?skipn_length, ?app_length, ?Hs1, ?Hst)].
    assert (Hb20 : length (skipn tl (src1 ++ srct)) = bs) by (rewrite skipn_length, app_length; lia).
    unfold bs. run_prefix 1. fold bs. rewrite <- EB2.
    assert (HB2 : length B2 = bs) by (rewrite EB2; apply D_len; exact Hb20).
    run_prefix 1. fold bs. unfold block in *.
    repeat first [ok_check' | progress (rewrite ?HB2, ?Hs1, ?firstn_length, ?skipn_length)].
    assert (Emx : MirSem.splice tl (bs - tl) (firstn (bs - tl) (skipn tl B2)) src1 = firstn tl src1 ++ skipn tl B2).
    { unfold MirSem.splice. f_equal. rewrite (skipn_all2 src1) by lia. rewrite app_nil_r. apply firstn_all2. rewrite skipn_length. lia. }
    rewrite ?Emx.
    unfold bs. run_prefix 1. fold bs. rewrite <- EB1.
    assert (HB1 : length B1 = bs).
    { rewrite EB1. apply D_len. rewrite app_length, firstn_length, skipn_length. lia. }
    run_prefix 1. fold bs. unfold block in *.
    repeat first [ok_check' | progress (rewrite ?HLo, ?HLi, ?ERo, ?app_length, ?Hol, ?Hot, ?HB1)].
    assert (Ew1 : MirSem.splice 0 (bs - 0) B1 (ol ++ ot) = B1 ++ ot).
    { rewrite Nat.sub_0_r. apply seg_write_head. lia. }
    rewrite Ew1, Eo, (EWx (ol ++ ot) (B1 ++ ot)) by (rewrite app_length; lia).
    repeat first [ok_check' | progress (rewrite ?app_length, ?Hol, ?Hot, ?HB1, ?Hco)].
    run_rest. fold bs. unfold block in *.
    repeat first [ok_check' | progress (rewrite ?HLi, ?(ERx (B1 ++ ot)), ?app_length, ?Hol, ?Hot, ?HB1, ?HB2, ?Hco, ?firstn_length, ?skipn_length by (rewrite app_length; lia))].
    assert (Ew3 : MirSem.splice bs (bs + tl - bs) (firstn (tl - 0) (skipn 0 B2)) (B1 ++ ot) = B1 ++ firstn tl B2).
    { cbn [skipn]. rewrite Nat.sub_0_r. unfold MirSem.splice. rewrite <- HB1 at 1. rewrite firstn_app_exact by reflexivity.
      rewrite skipn_all2 by (rewrite app_length; lia). rewrite app_nil_r. reflexivity. }
    rewrite Ew3, (EWx (B1 ++ ot) (B1 ++ firstn tl B2)) by (rewrite app_length; lia).
    repeat first [ok_check' | progress (rewrite ?app_length, ?firstn_length, ?HB1, ?HB2, ?Hco)].
    eexists. split; [reflexivity|]. reflexivity.
  Qed.

  Lemma map2_app_l {A B Cc} (f : A -> B -> Cc) a1 a2 b1 b2 : length a1 = length b1 -> map2 f (a1 ++ a2) (b1 ++ b2) = map2 f a1 b1 ++ map2 f a2 b2.
  Proof. revert b1; induction a1 as [|x a1 IH]; intros [|y b1] H; cbn in *; try discriminate; auto. f_equal. apply IH. lia. Qed.

  (* the statements up to and including the bulk decryption, when a tail exists: all whole blocks but the last *)
  Lemma ecb_cs1_dec_head (al : bool) (ibp : list (list N)) (il it : list N) (obp : list (list N)) (ol ot : list N) nb tl :
    all_len bs ibp -> all_len bs obp -> length il = bs -> length ol = bs ->
    length ibp = nb - 1 -> length obp = nb - 1 -> 1 <= nb -> length it = tl -> length ot = tl -> 0 < tl < bs ->
    let i := concat (ibp ++ [il]) ++ it in let o := concat (obp ++ [ol]) ++ ot in
    let Csp := map (c_D C) (map rd_in (map2 (mkcell al) ibp obp)) in
    run_stmts (evalC X) (eenv false al i o) (firstn 4 (fn_body cts__ecb_cs1__BlockCipherDecClosure__Closure__call) ++ [SItem ""])
      = Some (Norm (envA al i o (concat Csp ++ ol ++ ot) nb tl) (RV VUnit)).
  Proof.
    intros Hibp Hobp Hil Hol Hk1 Hk2 Hnb1 Hit Hot Htl i o Csp. unfold block in *.
    assert (Hib : all_len bs (ibp ++ [il])) by (apply Forall_app; split; auto).
    assert (Hob : all_len bs (obp ++ [ol])) by (apply Forall_app; split; auto).
    assert (Hibl : length (ibp ++ [il]) = nb) by (rewrite app_length; cbn [length]; lia).
    assert (Hobl : length (obp ++ [ol]) = nb) by (rewrite app_length; cbn [length]; lia).
    assert (Hci : length (concat (ibp ++ [il])) = nb * bs) by (rewrite (all_len_concat_length bs) by auto; lia).
    assert (Hco : length (concat (obp ++ [ol])) = nb * bs) by (rewrite (all_len_concat_length bs) by auto; lia).
    assert (HLi : length i = nb * bs + tl) by (unfold i; rewrite app_length; lia).
    assert (HLo : length o = nb * bs + tl) by (unfold o; rewrite app_length; lia).
    assert (Hdiv : ndiv (length o) bs = nb).
    { unfold ndiv. rewrite HLo. symmetry. apply (Nat.div_unique _ _ _ tl); lia. }
    assert (F0 : in_range 0 (c_bs C) = true) by (apply in_range_true; fold bs; lia).
    assert (Ecl : cells_of bs al (firstn (nb * bs) (skipn 0 i)) (firstn (nb * bs) (skipn 0 o)) = map2 (mkcell al) ibp obp ++ [mkcell al il ol]).
    { unfold i, o. cbn [skipn]. unfold cells_of. rewrite <- Hci at 1. rewrite <- Hco. rewrite !firstn_app_exact by reflexivity.
      rewrite !(chunks_blocks_only C) by auto. cbn [fst]. change [mkcell al il ol] with (map2 (mkcell al) [il] [ol]). apply map2_app_l. unfold block in *. lia. }
    assert (ETo : firstn tl (skipn (nb * bs) o) = ot).
    { unfold o. rewrite <- Hco, skipn_app_exact by reflexivity. apply firstn_all2. lia. }
    assert (ETi : firstn tl (skipn (nb * bs) i) = it).
    { unfold i. rewrite <- Hci, skipn_app_exact by reflexivity. apply firstn_all2. lia. }
    assert (Hcp : length (map2 (mkcell al) ibp obp) = nb - 1) by (rewrite map2_length; unfold block in *; lia).
    assert (HCsp : length Csp = nb - 1 /\ all_len bs Csp).
    { unfold Csp. split; [rewrite !map_length; exact Hcp|]. apply all_len_map_f; auto. apply all_len_rd_in_mkcell; auto; lia. }
    destruct HCsp as [HCl HCa].
    assert (Eed : ed_cs C (map2 (mkcell al) ibp obp) = map2 wr_out (map2 (mkcell al) ibp obp) Csp).
    { unfold ed_cs. rewrite cts_ecb_dec_eq. reflexivity. }
    assert (Eo : o = concat obp ++ ol ++ ot).
    { unfold o. rewrite concat_app. cbn [concat]. rewrite app_nil_r, <- app_assoc. reflexivity. }
    clearbody i o Csp. unfold eenv.
    Opaque ed_cs cells_of outs_of.
    cbn [firstn fn_body cts__ecb_cs1__BlockCipherDecClosure__Closure__call app].
    run_prefix 2. fold bs. rewrite Hdiv. replace (length o - nb * bs) with tl by lia.
    rewrite run_if_mid by discriminate.
    match goal with |- context [evalC ?X0 ?e0 ?c0] => eval_sub (evalC X0 e0 c0) end. fold bs. unfold block in *.
    repeat first [ok_check' | progress (rewrite ?HLo, ?HLi, ?ETo, ?Hot)].
    try replace (len_eq tl 0) with false by (symmetry; apply len_eq_false; lia). cbn [negb].
    pick_branch. unfold run_block.
    run_prefix 1. fold bs. unfold block in *.
    repeat first [ok_check' | progress (rewrite ?HLo, ?HLi, ?Ecl, ?app_length, ?Hcp) | progress (cbn [length])].
    replace (nb - 1 + 1 - 1) with (nb - 1) by lia.
    run_rest. fold bs. unfold block in *.
    repeat first [ok_check' | progress (rewrite ?HLo, ?HLi, ?Ecl, ?app_length, ?Hcp) | progress (cbn [length])].
    cbv beta iota delta [pop_to elen edrop psub].
    run_prefix 1. fold bs. unfold block in *.
    repeat first [ok_check' | progress (rewrite ?HLo, ?HLi, ?Ecl, ?app_length, ?Hcp) | progress (cbn [length])].
    unfold block in *. set (cellsP := map2 (mkcell al) ibp obp) in *. set (cL := mkcell al il ol) in *.
    assert (Efn : firstn (nb - 1) (skipn 0 (cellsP ++ [cL])) = cellsP).
    { cbn [skipn]. rewrite <- Hcp, firstn_app_exact by reflexivity. reflexivity. }
    assert (Ecs : forall Xc, csplice 0 (nb - 1) Xc (cellsP ++ [cL]) = Xc ++ [cL]).
    { intros Xc. unfold csplice. cbn [firstn app Nat.add]. rewrite <- Hcp, skipn_app_exact by reflexivity. reflexivity. }
    assert (Eou : outs_of (map2 wr_out cellsP Csp ++ [cL]) = concat Csp ++ ol).
    { Transparent outs_of. unfold outs_of. Opaque outs_of. rewrite map_app, concat_app. rewrite map_cout_wr by (transitivity (nb - 1); [exact Hcp | symmetry; exact HCl]).
      cbn [map concat cL cout]. rewrite app_nil_r. reflexivity. }
    assert (Hcsl : length (concat Csp) = (nb - 1) * bs) by (rewrite (all_len_concat_length bs) by auto; unfold block in *; lia).
    assert (Esp : MirSem.splice 0 (nb * bs) (concat Csp ++ ol) o = concat Csp ++ ol ++ ot).
    { rewrite Eo. replace (concat obp ++ ol ++ ot) with ((concat obp ++ ol) ++ ot) by (rewrite <- app_assoc; reflexivity).
      rewrite seg_write_head, <- app_assoc; [reflexivity|]. rewrite app_length, (all_len_concat_length bs) by auto. unfold block in *. nia. }
    repeat match goal with |- context [firstn (nb - 1) (skipn 0 ?x)] => replace (firstn (nb - 1) (skipn 0 x)) with cellsP by (symmetry; exact Efn) end.
    repeat match goal with |- context [ed_cs C ?x] => replace (ed_cs C x) with (map2 wr_out cellsP Csp) by (symmetry; exact Eed) end.
    repeat match goal with |- context [csplice 0 (nb - 1) ?a ?b] => replace (csplice 0 (nb - 1) a b) with (a ++ [cL]) by (symmetry; exact (Ecs a)) end.
    repeat match goal with |- context [outs_of ?a] => replace (outs_of a) with (concat Csp ++ ol) by (symmetry; exact Eou) end.
    repeat match goal with |- context [MirSem.splice 0 (nb * bs) ?a o] => replace (MirSem.splice 0 (nb * bs) a o) with (concat Csp ++ ol ++ ot) by (symmetry; exact Esp) end.
    repeat first [ok_check' | progress (rewrite ?map2_length, ?app_length, ?Hcp, ?HCl, ?Nat.min_id, ?Hcsl, ?Hol)].
    match goal with |- context [len_eq ?a (nb - 1)] => replace (len_eq a (nb - 1)) with true
      by (symmetry; apply len_eq_true; transitivity (Nat.min (nb - 1) (nb - 1)); [f_equal; [exact Hcp | exact HCl] | apply Nat.min_id]) end.
    cbv beta iota. unfold envA. reflexivity.
  Qed.
End EcbCs1DecB.

Section EcbCs1Dec.
  Variable C : cipher.
  Let bs := c_bs C.
  Hypothesis bs_pos : 0 < bs.
  Hypothesis D_len : forall x, length x = bs -> length (c_D C x) = bs.
  Let X := bctx C [("ecb_dec", FSem (ecb_dec_sem C))]
                  [("into_chunks::BS", VNat bs); ("Block::<B>::default()", VBlk (zeros bs)); ("B::BlockSize::USIZE", VNat bs); ("try_into::LEN", VNat bs)].

  Lemma tie_cts__ecb_cs1__BlockCipherDecClosure__Closure__call al ib it ob ot :
    all_len bs ib -> all_len bs ob -> length ib = length ob -> 1 <= length ib ->
    length it = length ot -> length ot < bs ->
    exists e' o', run_body X (eenv false al (concat ib ++ it) (concat ob ++ ot)) cts__ecb_cs1__BlockCipherDecClosure__Closure__call = Some (e', VUnit)
      /\ lookup "buf" e' = Some (VBuf al (concat ib ++ it) o')
      /\ ecb_cs1_dec C (mkmem al (concat ib ++ it) (concat ob ++ ot)) = Ok (mkmem al (concat ib ++ it) o').
  Proof.
    intros Hib Hob Hnb Hnb1 Htl Htl2. unfold run_body. unfold block in *.
    remember (length ib) as nb eqn:Enb.
    remember (length ot) as tl eqn:Etl.
    assert (Hci : length (concat ib) = nb * bs) by (rewrite (all_len_concat_length bs) by auto; lia).
    assert (Hco : length (concat ob) = nb * bs) by (rewrite (all_len_concat_length bs) by auto; lia).
    assert (HLi : length (concat ib ++ it) = nb * bs + tl) by (rewrite app_length; lia).
    assert (HLo : length (concat ob ++ ot) = nb * bs + tl) by (rewrite app_length; lia).
    assert (Hdiv : ndiv (length (concat ob ++ ot)) bs = nb).
    { unfold ndiv. rewrite HLo. symmetry. apply (Nat.div_unique _ _ _ tl); lia. }
    assert (Hd : length (concat ob ++ ot) / bs = nb) by (rewrite HLo; symmetry; apply (Nat.div_unique _ _ _ tl); lia).
    assert (Hm : length (concat ob ++ ot) mod bs = tl) by (rewrite HLo; symmetry; apply (Nat.mod_unique _ _ nb); lia).
    assert (F0 : in_range 0 (c_bs C) = true) by (apply in_range_true; fold bs; lia).
    assert (EclZ : forall Z ot', all_len bs Z -> length Z = nb ->
              cells_of bs al (firstn (nb * bs) (skipn 0 (concat ib ++ it))) (firstn (nb * bs) (skipn 0 (concat Z ++ ot'))) = map2 (mkcell al) ib Z).
    { intros Z ot' HZ HZl. cbn [skipn]. unfold cells_of.
      assert (HZc : length (concat Z) = nb * bs) by (rewrite (all_len_concat_length bs) by auto; unfold block in *; nia).
      rewrite <- Hci at 1. rewrite <- HZc. rewrite !firstn_app_exact by reflexivity. rewrite !(chunks_blocks_only C) by auto. reflexivity. }
    assert (ET : forall (Z : list (list N)) (ot' : list N), all_len bs Z -> length Z = nb -> firstn tl (skipn (nb * bs) (concat Z ++ ot')) = firstn tl ot').
    { intros Z ot' HZ HZl. assert (HZc : length (concat Z) = nb * bs) by (rewrite (all_len_concat_length bs) by auto; unfold block in *; nia).
      rewrite <- HZc, skipn_app_exact by reflexivity. reflexivity. }
    assert (EI : firstn tl (skipn (nb * bs) (concat ib ++ it)) = it).
    { rewrite <- Hci, skipn_app_exact by reflexivity. apply firstn_all2. lia. }
    Opaque ed_cs cells_of outs_of.
    destruct (Nat.eq_dec tl 0) as [Htl0|Htl0].
    - (* whole blocks only: plain ECB *)
      run_prefix 2. fold bs. rewrite Hdiv. replace (length (concat ob ++ ot) - nb * bs) with tl by lia.
      run_prefix 1. fold bs. unfold block in *.
      repeat first [ok_check | progress (rewrite ?HLo, ?HLi, ?(ET ob ot Hob (eq_sym Hnb)), ?EI, ?(firstn_all2 ot), ?firstn_length, ?skipn_length by lia) | progress (rewrite <- ?Etl)].
      destruct (bulk C bs_pos (cts_ecb_dec C) (fun _ _ => tt) (fun _ bl => map (c_D C) bl) (cts_ecb_dec_eq C)
                 (fun _ bl H => conj (map_length _ _) (all_len_map_f (c_D C) bs bl D_len H)) tt al ib it ob ot nb Hib Hob (eq_sym Enb) (eq_sym Hnb) (eq_trans Htl Etl))
        as (Ecells & HCl & HCa & Ecbc & Eouts & Emain).
      fold bs in Ecells, HCl, HCa, Ecbc, Eouts, Emain.
      remember (map (c_D C) (map rd_in (map2 (mkcell al) ib ob))) as Cs eqn:ECs.
      assert (Hol : length (concat Cs) = nb * bs).
      { rewrite (all_len_concat_length bs) by auto. unfold block in *. nia. }
      assert (Eo1 : MirSem.splice 0 (nb * bs) (concat Cs) (concat ob ++ ot) = concat Cs ++ ot).
      { apply seg_write_head. lia. }
      run_prefix 1. fold bs. unfold block in *.
      repeat first [ok_check | progress (rewrite ?HLo, ?HLi)].
      match goal with |- context [outs_of (ed_cs C ?a)] => replace (outs_of (ed_cs C a)) with (concat Cs) by (symmetry; exact Eouts) end.
      repeat first [ok_check | progress (rewrite ?HLo, ?HLi, ?Hol, ?Eo1)].
      assert (HL1 : length (concat Cs ++ ot) = nb * bs + tl) by (rewrite app_length; lia).
      run_prefix 1. fold bs. unfold block in *.
      repeat first [ok_check | progress (rewrite ?HL1, ?HLi, ?(ET Cs ot HCa HCl), ?(firstn_all2 ot), ?firstn_length, ?skipn_length by lia) | progress (rewrite <- ?Etl)].
      replace (len_eq tl 0) with true by (symmetry; apply len_eq_true; exact Htl0). cbv beta iota.
      eexists _, _. split; [reflexivity|]. split; [reflexivity|].
      unfold ecb_cs1_dec. fold bs. unfold mlen. cbn [m_out]. rewrite Hd, Hm.
      replace (Nat.ltb (length (concat ob ++ ot)) bs) with false by (symmetry; apply Nat.ltb_ge; nia).
      replace (Nat.eqb tl 0) with true by (symmetry; apply Nat.eqb_eq; exact Htl0).
      rewrite Emain. cbn [obind]. destruct (cts_ecb_dec C tt _). reflexivity.
    - (* a partial last block: un-stealing *)
      destruct (exists_last (l := ib)) as (ibp & il & Eib). { intros E0; rewrite E0 in Enb; cbn in Enb; lia. }
      destruct (exists_last (l := ob)) as (obp & ol & Eob). { intros E0; rewrite E0 in Hnb; cbn in Hnb; lia. }
      subst ib ob. apply Forall_app in Hib. destruct Hib as [Hibp Hil]. apply Forall_app in Hob. destruct Hob as [Hobp Hol].
      assert (Hil' : length il = bs) by (inversion Hil; auto). assert (Hol' : length ol = bs) by (inversion Hol; auto). clear Hil Hol.
      rewrite app_length in Enb, Hnb. cbn [length] in Enb, Hnb.
      pose proof (ecb_cs1_dec_head C bs_pos D_len al ibp il it obp ol ot nb tl Hibp Hobp Hil' Hol' ltac:(lia) ltac:(lia) ltac:(lia) Htl (eq_sym Etl) ltac:(lia)) as HA.
      cbv zeta in HA.
      set (Csp := map (c_D C) (map rd_in (map2 (mkcell al) ibp obp))) in *.
      assert (HCsp : length Csp = nb - 1 /\ all_len bs Csp).
      { unfold Csp. split; [rewrite !map_length, map2_length; unfold block in *; lia|]. apply all_len_map_f; auto. apply all_len_rd_in_mkcell; auto; lia. }
      destruct HCsp as [HCl HCa].
      assert (Ei : concat (ibp ++ [il]) ++ it = concat ibp ++ il ++ it) by (rewrite concat_app; cbn [concat]; rewrite app_nil_r, <- app_assoc; reflexivity).
      destruct (ecb_cs1_dec_tail C bs_pos D_len al ibp il it Csp ol ot (concat (obp ++ [ol]) ++ ot) nb tl Hibp HCa Hil' Hol' ltac:(lia) HCl ltac:(lia) Htl (eq_sym Etl) ltac:(lia))
        as (e' & HB & Hbuf). cbv zeta in HB, Hbuf. rewrite <- Ei in HB, Hbuf.
      set (i := concat (ibp ++ [il]) ++ it) in *. set (o := concat (obp ++ [ol]) ++ ot) in *.
      change (fn_body cts__ecb_cs1__BlockCipherDecClosure__Closure__call)
        with (firstn 4 (fn_body cts__ecb_cs1__BlockCipherDecClosure__Closure__call) ++ skipn 4 (fn_body cts__ecb_cs1__BlockCipherDecClosure__Closure__call)).
      rewrite run_stmts_app by discriminate. unfold X. fold bs in HA, HB. rewrite HA, HB.
      eexists e', _. split; [reflexivity|]. split; [exact Hbuf|].
      destruct (bulk C bs_pos (cts_ecb_dec C) (fun _ _ => tt) (fun _ bl => map (c_D C) bl) (cts_ecb_dec_eq C)
                 (fun _ bl H => conj (map_length _ _) (all_len_map_f (c_D C) bs bl D_len H)) tt al ibp (il ++ it) obp (ol ++ ot) (nb - 1)
                 Hibp Hobp ltac:(lia) ltac:(lia) ltac:(rewrite !app_length; lia))
        as (_ & _ & _ & _ & _ & Emain).
      fold bs in Emain. fold Csp in Emain.
      assert (Eo : o = concat obp ++ ol ++ ot) by (unfold o; rewrite concat_app; cbn [concat]; rewrite app_nil_r, <- app_assoc; reflexivity).
      assert (Ei' : i = concat ibp ++ il ++ it) by exact Ei.
      rewrite <- Eo, <- Ei' in Emain.
      assert (HLi' : length i = nb * bs + tl) by exact HLi.
      assert (HLo' : length o = nb * bs + tl) by exact HLo.
      unfold ecb_cs1_dec. fold bs. unfold mlen. cbn [m_out]. fold o. rewrite Hd, Hm.
      replace (Nat.ltb (length o) bs) with false by (symmetry; apply Nat.ltb_ge; nia).
      replace (Nat.eqb tl 0) with false by (symmetry; apply Nat.eqb_neq; lia).
      unfold usub at 1. replace (Nat.leb 1 nb) with true by (symmetry; apply Nat.leb_le; lia). cbn [obind].
      rewrite Emain. cbn [obind]. destruct (cts_ecb_dec C tt _) as [u cs']. cbn [fst].
      unfold usub. rewrite HLo'. replace (Nat.leb (bs + tl) (nb * bs + tl)) with true by (symmetry; apply Nat.leb_le; nia). cbn [obind].
      replace (nb * bs + tl - (bs + tl)) with ((nb - 1) * bs) by nia.
      assert (Hsl : forall (P x t : list N), length P = (nb - 1) * bs -> length x = bs -> length t = tl ->
                slice (P ++ x ++ t) ((nb - 1) * bs) ((nb - 1) * bs + bs) = Ok x /\
                slice (P ++ x ++ t) ((nb - 1) * bs + tl) ((nb - 1) * bs + tl + bs) = Ok (skipn tl (x ++ t))).
      { intros P x t HP Hx Ht. unfold slice. rewrite !app_length, HP, Hx, Ht.
        replace (Nat.leb ((nb - 1) * bs) ((nb - 1) * bs + bs)) with true by (symmetry; apply Nat.leb_le; lia).
        replace (Nat.leb ((nb - 1) * bs + bs) ((nb - 1) * bs + (bs + tl))) with true by (symmetry; apply Nat.leb_le; lia).
        replace (Nat.leb ((nb - 1) * bs + tl) ((nb - 1) * bs + tl + bs)) with true by (symmetry; apply Nat.leb_le; lia).
        replace (Nat.leb ((nb - 1) * bs + tl + bs) ((nb - 1) * bs + (bs + tl))) with true by (symmetry; apply Nat.leb_le; lia).
        cbn [andb]. replace ((nb - 1) * bs + bs - (nb - 1) * bs) with bs by lia. replace ((nb - 1) * bs + tl + bs - ((nb - 1) * bs + tl)) with bs by lia.
        split.
        - rewrite <- HP, skipn_app_exact by reflexivity. rewrite <- Hx, firstn_app_exact by reflexivity. reflexivity.
        - rewrite <- HP. rewrite skipn_app, skipn_all2 by lia. replace (length P + tl - length P) with tl by lia. cbn [app].
          rewrite firstn_all2 by (rewrite skipn_length, app_length; lia). reflexivity. }
      assert (Hcsl : length (concat Csp) = (nb - 1) * bs) by (rewrite (all_len_concat_length bs) by auto; unfold block in *; lia).
      assert (Hcil : length (concat ibp) = (nb - 1) * bs) by (rewrite (all_len_concat_length bs) by auto; unfold block in *; lia).
      assert (Hput : forall a inn (P x t b1 b2 : list N), length P = (nb - 1) * bs -> length x = bs -> length t = tl -> length b1 = bs -> length b2 = bs ->
                (do m2 <- mput_out (mkmem a inn (P ++ x ++ t)) ((nb - 1) * bs) b1; mput_out m2 ((nb - 1) * bs + bs) (firstn tl b2))
                = Ok (mkmem a inn (P ++ b1 ++ firstn tl b2))).
      { intros a inn P x t b1 b2 HP Hx Ht Hb1 Hb2. unfold mput_out at 1. cbn [m_al m_in m_out]. rewrite !app_length, HP, Hx, Ht, Hb1.
        replace (Nat.leb ((nb - 1) * bs + bs) ((nb - 1) * bs + (bs + tl))) with true by (symmetry; apply Nat.leb_le; lia). cbn [obind].
        assert (S1 : splice (P ++ x ++ t) ((nb - 1) * bs) b1 = P ++ b1 ++ t).
        { unfold splice. rewrite <- HP, firstn_app_exact by reflexivity. rewrite skipn_app, skipn_all2 by lia.
          replace (length P + length b1 - length P) with (length x) by lia. cbn [app]. rewrite skipn_app_exact by reflexivity. reflexivity. }
        rewrite S1. unfold mput_out. cbn [m_al m_in m_out]. rewrite !app_length, HP, Hb1, Ht, firstn_length, Hb2.
        replace (Nat.leb ((nb - 1) * bs + bs + Nat.min tl bs) ((nb - 1) * bs + (bs + tl))) with true by (symmetry; apply Nat.leb_le; lia).
        do 2 f_equal. unfold splice. replace ((nb - 1) * bs + bs) with (length (P ++ b1)) by (rewrite app_length; lia).
        rewrite (app_assoc P b1 t), firstn_app_exact by reflexivity. rewrite <- app_assoc. do 2 f_equal.
        rewrite skipn_all2 by (rewrite !app_length, firstn_length; lia). rewrite app_nil_r. reflexivity. }
      assert (HDl : forall x : list N, length x = bs -> length (c_D C x) = bs) by exact D_len.
      unfold mget_in, msrc. cbn [m_al m_in m_out]. rewrite Ei'.
      replace ((nb - 1) * bs + tl + bs) with ((nb - 1) * bs + tl + bs) by lia.
      destruct al.
      + destruct (Hsl (concat Csp) ol ot Hcsl Hol' (eq_sym Etl)) as [S1 S2]. rewrite S1. cbn [obind]. rewrite S2. cbn [obind].
        apply Hput; auto.
        * apply HDl. rewrite app_length, firstn_length, skipn_length, HDl by (rewrite skipn_length, app_length; lia). lia.
        * apply HDl. rewrite skipn_length, app_length. lia.
      + destruct (Hsl (concat ibp) il it Hcil Hil' Htl) as [S1 S2]. rewrite S1. cbn [obind]. rewrite S2. cbn [obind].
        apply Hput; auto.
        * apply HDl. rewrite app_length, firstn_length, skipn_length, HDl by (rewrite skipn_length, app_length; lia). lia.
        * apply HDl. rewrite skipn_length, app_length. lia.
  Qed.
End EcbCs1Dec.

Section EcbCs1Enc.
  Variable C : cipher.
  Let bs := c_bs C.
  Hypothesis bs_pos : 0 < bs.
  Hypothesis E_len : forall x, length x = bs -> length (c_E C x) = bs.
  Let X := bctx C [("ecb_enc", FSem (ecb_enc_sem C))]
                  [("into_chunks::BS", VNat bs); ("Block::<B>::default()", VBlk (zeros bs)); ("B::BlockSize::USIZE", VNat bs)].


  Lemma tie_cts__ecb_cs1__BlockCipherEncClosure__Closure__call al ib it ob ot :
    all_len bs ib -> all_len bs ob -> length ib = length ob -> 1 <= length ib ->
    length it = length ot -> length ot < bs ->
    exists e' o', run_body X (eenv true al (concat ib ++ it) (concat ob ++ ot)) cts__ecb_cs1__BlockCipherEncClosure__Closure__call = Some (e', VUnit)
      /\ lookup "buf" e' = Some (VBuf al (concat ib ++ it) o')
      /\ ecb_cs1_enc C (mkmem al (concat ib ++ it) (concat ob ++ ot)) = Ok (mkmem al (concat ib ++ it) o').
  Proof.
    intros Hib Hob Hnb Hnb1 Htl Htl2. unfold run_body. unfold block in *.
    remember (length ib) as nb eqn:Enb.
    destruct (bulk C bs_pos (cts_ecb_enc C) (fun _ _ => tt) (fun _ bl => map (c_E C) bl) (cts_ecb_enc_eq C)
               (fun _ bl H => conj (map_length _ _) (all_len_map_f (c_E C) bs bl E_len H)) tt al ib it ob ot nb Hib Hob (eq_sym Enb) (eq_sym Hnb) Htl)
      as (Ecells & HCl & HCa & Ecbc & Eouts & Emain).
    remember (length ot) as tl eqn:Etl.
    fold bs in Ecells, HCl, HCa, Ecbc, Eouts, Emain.
    remember (map (c_E C) (map rd_in (map2 (mkcell al) ib ob))) as Cs eqn:ECs.
    assert (Hci : length (concat ib) = nb * bs) by (rewrite (all_len_concat_length bs) by auto; lia).
    assert (Hco : length (concat ob) = nb * bs) by (rewrite (all_len_concat_length bs) by auto; lia).
    remember (concat ib ++ it) as i eqn:Ei. remember (concat ob ++ ot) as o eqn:Eo.
    assert (HLi : length i = nb * bs + tl) by (subst i; rewrite app_length; lia).
    assert (HLo : length o = nb * bs + tl) by (subst o; rewrite app_length; lia).
    assert (Hdiv : ndiv (length o) bs = nb).
    { unfold ndiv. rewrite HLo. symmetry. apply (Nat.div_unique _ _ _ tl); lia. }
    assert (F0 : in_range 0 (c_bs C) = true) by (apply in_range_true; fold bs; lia).
    run_prefix 2. fold bs. rewrite Hdiv. replace (length o - nb * bs) with tl by lia.
    remember (cells_of bs al (firstn (nb * bs) (skipn 0 i)) (firstn (nb * bs) (skipn 0 o))) as cells0 eqn:Ec0.
    assert (Eouts' : outs_of (ee_cs C cells0) = concat Cs) by exact Eouts.
    assert (Hol : length (concat Cs) = nb * bs).
    { rewrite (all_len_concat_length bs) by auto. unfold block in *. nia. }
    assert (Eo1 : MirSem.splice 0 (nb * bs) (concat Cs) o = concat Cs ++ ot).
    { subst o. apply seg_write_head. lia. }
    assert (F1 : fits 0 (nb * bs) (length o) = true) by (apply fits_true; lia).
    assert (F2 : fits 0 (nb * bs) (length i) = true) by (apply fits_true; lia).
    assert (F3 : len_eq (length (concat Cs)) (nb * bs) = true) by (apply len_eq_true; exact Hol).
    assert (Emodel : ecb_cs1_enc C (mkmem al i o) =
       if Nat.eqb tl 0 then Ok (mkmem al i (concat Cs ++ ot)) else
       do lastoff <- usub nb 1;
       do last_block <- mget_out (mkmem al i (concat Cs ++ ot)) (lastoff * bs) bs;
       do tin <- mget_in (mkmem al i (concat Cs ++ ot)) (nb * bs) tl;
       do pos <- usub (length o) bs;
       mput_out (mkmem al i (concat Cs ++ ot)) pos (c_E C (mix tin last_block))).
    { unfold ecb_cs1_enc. fold bs. unfold mlen. cbn [m_out].
      assert (Hd : length o / bs = nb) by (rewrite HLo; symmetry; apply (Nat.div_unique _ _ _ tl); lia).
      assert (Hm : length o mod bs = tl) by (rewrite HLo; symmetry; apply (Nat.mod_unique _ _ nb); lia).
      rewrite Hd, Hm. replace (Nat.ltb (length o) bs) with false by (symmetry; apply Nat.ltb_ge; nia).
      rewrite Emain. cbn [obind]. destruct (cts_ecb_enc C tt cells0). reflexivity. }
    unfold bs in F1, F2, F3.
    Opaque ee_cs cells_of outs_of.
    run_prefix 1.
    match goal with |- context [outs_of (ee_cs C ?a)] => replace (outs_of (ee_cs C a)) with (concat Cs) by (symmetry; subst cells0; exact Eouts') end.
    match goal with |- context [len_eq ?a ?b] => replace (len_eq a b) with true by (symmetry; exact F3) end. cbv beta iota.
    match goal with |- context [MirSem.splice ?a ?b ?c ?d] => replace (MirSem.splice a b c d) with (concat Cs ++ ot) by (symmetry; exact Eo1) end.
    assert (HL1 : length (concat Cs ++ ot) = nb * bs + tl) by (rewrite app_length; lia).
    assert (G1 : fits (nb * bs) tl (length (concat Cs ++ ot)) = true) by (apply fits_true; lia).
    assert (G2 : fits (nb * bs) tl (length i) = true) by (apply fits_true; lia).
    assert (ET : forall ot', firstn tl (skipn (nb * bs) (concat Cs ++ ot')) = firstn tl ot').
    { intros ot'. rewrite <- Hol, skipn_app_exact by reflexivity. reflexivity. }
    assert (EI : firstn tl (skipn (nb * bs) i) = it).
    { subst i. rewrite <- Hci, skipn_app_exact by reflexivity. apply firstn_all2. lia. }
    destruct (Nat.eq_dec tl 0) as [Htl0|Htl0].
    - unfold bs in G1, G2.
      run_prefix 1.
      eexists _, _. split; [reflexivity|]. split; [reflexivity|]. rewrite Emodel.
      replace (Nat.eqb tl 0) with true by (symmetry; apply Nat.eqb_eq; exact Htl0). reflexivity.
    - assert (G3 : len_eq (length (firstn tl (skipn (nb * bs) (concat Cs ++ ot)))) 0 = false).
      { apply len_eq_false. rewrite ET, firstn_all2 by lia. lia. }
      unfold bs in G1, G2, G3.
      run_prefix 1.
      assert (Ecl : forall ot', cells_of bs al (firstn (nb * bs) (skipn 0 i)) (firstn (nb * bs) (skipn 0 (concat Cs ++ ot'))) = map2 (mkcell al) ib Cs).
      { intros ot'. subst i. cbn [skipn]. Transparent cells_of. unfold cells_of. Opaque cells_of.
        rewrite <- Hci at 1. rewrite <- Hol. rewrite !firstn_app_exact by reflexivity. rewrite !(chunks_blocks_only C) by auto. reflexivity. }
      assert (Erd : forall ot', map rd_out (cells_of bs al (firstn (nb * bs) (skipn 0 i)) (firstn (nb * bs) (skipn 0 (concat Cs ++ ot')))) = Cs).
      { intros ot'. rewrite Ecl. apply map_rd_out_mkcell. lia. }
      destruct (exists_last (l := Cs)) as (Cp & cl & ECp). { intros E0; rewrite E0 in HCl; cbn in HCl; lia. }
      assert (Hcp : length Cp = nb - 1) by (rewrite ECp, app_length in HCl; cbn in HCl; lia).
      assert (Hcl : length cl = bs) by (rewrite ECp in HCa; apply Forall_app in HCa; destruct HCa as [_ Hx]; inversion Hx; auto).
      assert (H1 : in_range 0 (length (map rd_out (cells_of bs al (firstn (nb * bs) (skipn 0 i)) (firstn (nb * bs) (skipn 0 (concat Cs ++ ot)))))) = true).
      { apply in_range_true. rewrite Erd. unfold block in *. lia. }
      unfold bs in H1.
      run_prefix 1. fold bs. rewrite Erd. rewrite HCl.
      replace (in_range 0 nb) with true by (symmetry; apply in_range_true; lia). cbv beta iota.
      run_prefix 2. fold bs. rewrite (ET ot), (firstn_all2 ot) by lia. rewrite <- Etl.
      run_prefix 1. fold bs. rewrite ?(ET ot), ?EI, ?(firstn_all2 ot) by lia. rewrite <- ?Etl.
      repeat ok_check. fold bs. rewrite ?(ET ot), ?EI, ?(firstn_all2 ot) by lia. rewrite <- ?Etl.
      remember (if al then ot else it) as tin eqn:Etin.
      assert (Htin : length tin = tl) by (subst tin; destruct al; lia).
      repeat ok_check.
      assert (Eblk : MirSem.splice 0 (tl - 0) tin (zeros bs) = tin ++ zeros (bs - tl)).
      { unfold MirSem.splice. cbn [firstn app Nat.add]. f_equal. unfold zeros. rewrite skipn_repeat_l. f_equal. lia. }
      rewrite Eblk.
      assert (Enth : nth (nb - 1) Cs [] = cl).
      { rewrite ECp, <- Hcp, app_nth2, Nat.sub_diag by lia. reflexivity. }
      run_prefix 1. fold bs. unfold block in *. rewrite ?Erd, ?Enth, ?HCl.
      assert (Emix : MirSem.splice tl (bs - tl) (firstn (bs - tl) (skipn tl cl)) (tin ++ zeros (bs - tl)) = mix tin cl).
      { unfold MirSem.splice, mix. rewrite <- Htin at 1. rewrite firstn_app_exact by reflexivity. f_equal.
        rewrite (skipn_all2 (tin ++ zeros (bs - tl))) by (rewrite app_length, zeros_length; lia). rewrite app_nil_r, Htin.
        apply firstn_all2. rewrite skipn_length. lia. }
      repeat first [ok_check | progress (rewrite ?Erd, ?Enth, ?HCl, ?Hcl, ?app_length, ?zeros_length, ?Htin)].
      replace (tl + (bs - tl) - tl) with (bs - tl) by lia. rewrite Emix.
      unfold bs. run_prefix 1. fold bs.
      match goal with |- context [VBlk (c_E C ?x)] => remember (c_E C x) as cb eqn:Ecb end.
      assert (Hcb : length cb = bs).
      { subst cb; apply E_len. unfold mix. rewrite app_length, skipn_length. lia. }
      unfold bs. run_prefix 1. fold bs. unfold block in *.
      repeat first [ok_check | progress (rewrite ?HL1, ?Hcb)].
      run_rest. fold bs. unfold block in *.
      repeat first [ok_check | progress (rewrite ?HL1, ?Hcb) | progress (rewrite ?msplice_length by (rewrite ?HL1, ?Hcb; nia))].
      eexists _, _. split; [reflexivity|]. split; [reflexivity|]. rewrite Emodel.
      replace (Nat.eqb tl 0) with false by (symmetry; apply Nat.eqb_neq; lia).
      unfold usub. replace (Nat.leb 1 nb) with true by (symmetry; apply Nat.leb_le; lia). cbn [obind].
      assert (Hcpl : length (concat Cp) = (nb - 1) * bs).
      { rewrite (all_len_concat_length bs). - unfold block in *; lia. - rewrite ECp in HCa. apply Forall_app in HCa. tauto. }
      assert (Ego : mget_out (mkmem al i (concat Cs ++ ot)) ((nb - 1) * bs) bs = Ok cl).
      { unfold mget_out, slice. cbn [m_out]. rewrite HL1.
        replace (Nat.leb ((nb - 1) * bs) ((nb - 1) * bs + bs)) with true by (symmetry; apply Nat.leb_le; lia).
        replace (Nat.leb ((nb - 1) * bs + bs) (nb * bs + tl)) with true by (symmetry; apply Nat.leb_le; nia). cbn [andb].
        replace ((nb - 1) * bs + bs - (nb - 1) * bs) with bs by lia.
        rewrite ECp, concat_app, <- app_assoc, <- Hcpl, skipn_app_exact by reflexivity. cbn [concat]. rewrite app_nil_r, <- Hcl, firstn_app_exact by reflexivity. reflexivity. }
      assert (Eg : mget_in (mkmem al i (concat Cs ++ ot)) (nb * bs) tl = Ok tin).
      { unfold mget_in, msrc, slice. cbn [m_al m_in m_out]. subst tin.
        replace (nb * bs + tl - nb * bs) with tl by lia.
        destruct al.
        - rewrite HL1. replace (Nat.leb (nb * bs) (nb * bs + tl)) with true by (symmetry; apply Nat.leb_le; lia).
          rewrite Nat.leb_refl. cbn [andb]. rewrite (ET ot), firstn_all2 by lia. reflexivity.
        - rewrite HLi. replace (Nat.leb (nb * bs) (nb * bs + tl)) with true by (symmetry; apply Nat.leb_le; lia).
          rewrite Nat.leb_refl. cbn [andb]. rewrite EI. reflexivity. }
      rewrite Ego. cbn [obind]. rewrite Eg. cbn [obind]. unfold mix. first [rewrite <- Ecb | rewrite Htin; rewrite <- Ecb].
      replace (Nat.leb bs (length o)) with true by (symmetry; apply Nat.leb_le; nia). cbn [obind].
      unfold mput_out. cbn [m_al m_in m_out]. rewrite HL1, Hcb, HLo.
      replace (Nat.leb (nb * bs + tl - bs + bs) (nb * bs + tl)) with true by (symmetry; apply Nat.leb_le; nia).
      do 2 f_equal. unfold splice, MirSem.splice. rewrite Hcb.
      replace (nb * bs + tl - (nb * bs + tl - bs)) with bs by nia. reflexivity.
  Qed.

  (* ---- C05 over the translated source: the bytes this closure body leaves in the buffer are the NIST SP 800-38A
     Addendum ciphertext of the message, buffer-to-buffer (any prior contents of the output buffer) and in place --
     the tie theorem above composed with Cts_cs_proofs.ecb_cs1_enc_ok (= Props/C05). *)
  Theorem C05_ecb_cs1_enc_source_b2b (blocks : list (list N)) (tail : list N) (ob : list (list N)) (ot : list N) :
    cipher_wf C -> all_len bs blocks -> 1 <= length blocks -> length tail < bs ->
    all_len bs ob -> length ob = length blocks -> length ot = length tail ->
    exists e', run_body X (eenv true false (concat blocks ++ tail) (concat ob ++ ot)) cts__ecb_cs1__BlockCipherEncClosure__Closure__call = Some (e', VUnit)
      /\ lookup "buf" e' = Some (VBuf false (concat blocks ++ tail) (ecb_cs1_spec bs (c_E C) blocks tail)).
  Proof.
    intros Cwf Hb Hn Ht Hob Hobl Hotl.
    destruct (tie_cts__ecb_cs1__BlockCipherEncClosure__Closure__call false blocks tail ob ot) as (e' & o' & Hrun & Hbuf & Hmod); auto; try lia.
    assert (Hm : msg_mem C (mkmem false (concat blocks ++ tail) (concat ob ++ ot)) blocks tail).
    { constructor; auto. split; [|discriminate]. cbn [m_in m_out]. rewrite !app_length, !(all_len_concat_length bs) by auto. lia. }
    destruct (ecb_cs1_enc_ok C Cwf _ blocks tail Hm) as (m' & E1 & E2).
    fold bs in E2. rewrite Hmod in E1. injection E1 as <-. cbn [m_out] in E2. subst o'.
    exists e'. split; [exact Hrun | exact Hbuf].
  Qed.

  Theorem C05_ecb_cs1_enc_source_inplace (blocks : list (list N)) (tail : list N) :
    cipher_wf C -> all_len bs blocks -> 1 <= length blocks -> length tail < bs ->
    exists e', run_body X (eenv true true (concat blocks ++ tail) (concat blocks ++ tail)) cts__ecb_cs1__BlockCipherEncClosure__Closure__call = Some (e', VUnit)
      /\ lookup "buf" e' = Some (VBuf true (concat blocks ++ tail) (ecb_cs1_spec bs (c_E C) blocks tail)).
  Proof.
    intros Cwf Hb Hn Ht.
    destruct (tie_cts__ecb_cs1__BlockCipherEncClosure__Closure__call true blocks tail blocks tail) as (e' & o' & Hrun & Hbuf & Hmod); auto; try lia.
    assert (Hm : msg_mem C (mkmem true (concat blocks ++ tail) (concat blocks ++ tail)) blocks tail).
    { constructor; auto. split; auto. }
    destruct (ecb_cs1_enc_ok C Cwf _ blocks tail Hm) as (m' & E1 & E2).
    fold bs in E2. rewrite Hmod in E1. injection E1 as <-. cbn [m_out] in E2. subst o'.
    exists e'. split; [exact Hrun | exact Hbuf].
  Qed.
End EcbCs1Enc.

(* ---- C01 over the translated source: the translated EcbCs1 encryption closure run in place on a message, then the
   translated decryption closure run in place on what it left, returns the message (D inverse to E on blocks).
   Composition of the two closure ties with Cts_dec_proofs.cts_roundtrip_composed (= Props/C01, C01_cts). *)
Section EcbCs1RoundTrip.
  Variable C : cipher.
  Let bs := c_bs C.
  Hypothesis Cwf : cipher_wf C.
  Hypothesis DE : DE_id C.
  Let Xe := bctx C [("ecb_enc", FSem (ecb_enc_sem C))]
                   [("into_chunks::BS", VNat bs); ("Block::<B>::default()", VBlk (zeros bs)); ("B::BlockSize::USIZE", VNat bs)].
  Let Xd := bctx C [("ecb_dec", FSem (ecb_dec_sem C))]
                   [("into_chunks::BS", VNat bs); ("Block::<B>::default()", VBlk (zeros bs)); ("B::BlockSize::USIZE", VNat bs); ("try_into::LEN", VNat bs)].

  Theorem C01_ecb_cs1_source_inplace (blocks : list (list N)) (tail : list N) :
    all_len bs blocks -> 1 <= length blocks -> length tail < bs ->
    let M := concat blocks ++ tail in
    exists e1 c e2,
      run_body Xe (eenv true true M M) cts__ecb_cs1__BlockCipherEncClosure__Closure__call = Some (e1, VUnit)
      /\ lookup "buf" e1 = Some (VBuf true M c) /\ length c = length M
      /\ run_body Xd (eenv false true c c) cts__ecb_cs1__BlockCipherDecClosure__Closure__call = Some (e2, VUnit)
      /\ lookup "buf" e2 = Some (VBuf true c M).
  Proof.
    intros Hb Hn Ht M.
    destruct Cwf as (bs_pos & Hw & E_len & D_len).
    destruct (tie_cts__ecb_cs1__BlockCipherEncClosure__Closure__call C bs_pos E_len true blocks tail blocks tail) as (e1 & c & Hrun1 & Hbuf1 & Hmod1); auto.
    fold M in Hrun1, Hbuf1, Hmod1.
    assert (Hm : msg_mem C (mkmem true M M) blocks tail) by (constructor; auto; split; auto).
    assert (Hwf2 : mwf (mkmem true c c)) by (split; auto).
    destruct (cts_roundtrip_composed C (conj bs_pos (conj Hw (conj E_len D_len))) DE EcbCs1 (zeros bs) (mkmem true M M) blocks tail (mkmem true c c)
                (zeros_length _) Hm Hwf2) as (c0 & Ec0 & Hlen & Hdec).
    cbn [cts_run] in Ec0, Hdec. rewrite Hmod1 in Ec0. injection Ec0 as <-. unfold mlen in Hlen. cbn [m_out] in Hlen.
    destruct (Hdec eq_refl) as (p & Ep & Hp).
    destruct (chunks_decompose bs c bs_pos) as (bl & t & Ec & Hbl & Htl & _).
    assert (Hbn : 1 <= length bl).
    { assert (HL : length c = length bl * bs + length t) by (rewrite Ec at 1; rewrite app_length, (all_len_concat_length bs) by auto; reflexivity).
      assert (HM : length M = length blocks * bs + length tail) by (unfold M; rewrite app_length, (all_len_concat_length bs) by auto; reflexivity).
      destruct bl; [cbn [length] in HL; fold bs in Htl; nia | cbn [length]; lia]. }
    destruct (tie_cts__ecb_cs1__BlockCipherDecClosure__Closure__call C bs_pos D_len true bl t bl t) as (e2 & o2 & Hrun2 & Hbuf2 & Hmod2); auto.
    rewrite <- Ec in Hrun2, Hbuf2, Hmod2. rewrite Hmod2 in Ep. injection Ep as <-. cbn [m_out] in Hp. subst o2.
    exists e1, c, e2. repeat split; auto.
  Qed.
End EcbCs1RoundTrip.
