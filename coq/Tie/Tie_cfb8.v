(* Tie_cfb8.v -- the translated bodies of cfb8/src/{encrypt,decrypt}.rs compute what the model (the cfb8_
   definitions of BlockModes.v) computes, for every register length >= 1.  The cipher handle offers the
   encryption direction only. *)
From BM Require Import Tie.TieLib.
From BMGen Require Import Src_cfb8.
Local Open Scope string_scope.
Local Open Scope list_scope.

(* the register after the first k steps of `for i in 0..n-1 { iv[i] = iv[i+1] }` *)
Definition shl_upto (k : nat) (iv : list N) : list N := firstn k (skipn 1 iv) ++ skipn k iv.

Lemma shl_upto_length k iv : k < length iv -> length (shl_upto k iv) = length iv.
Proof. intros H. unfold shl_upto. rewrite app_length, firstn_length, !skipn_length. lia. Qed.

Lemma shl_upto_nth k iv : S k < length iv -> nth (k + 1) (shl_upto k iv) 0%N = nth (S k) iv 0%N.
Proof.
  intros H. unfold shl_upto.
  rewrite app_nth2 by (rewrite firstn_length, skipn_length; lia).
  rewrite firstn_length, skipn_length. replace (Nat.min k (length iv - 1)) with k by lia.
  replace (k + 1 - k) with 1 by lia.
  rewrite (skipn_nth_cons k 0%N iv) by lia. cbn [nth].
  rewrite (skipn_nth_cons (S k) 0%N iv) by lia. reflexivity.
Qed.

Lemma shl_upto_step k iv : S k < length iv ->
  upd_nth k (nth (S k) iv 0%N) (shl_upto k iv) = shl_upto (S k) iv.
Proof.
  intros H. unfold shl_upto.
  assert (Hl : length (firstn k (skipn 1 iv)) = k) by (rewrite firstn_length, skipn_length; lia).
  rewrite (upd_nth_split _ _ 0%N) by (rewrite app_length, skipn_length; lia).
  rewrite firstn_app, Hl, Nat.sub_diag, firstn_O, app_nil_r, firstn_all2 by lia.
  assert (Hk : skipn (S k) (firstn k (skipn 1 iv) ++ skipn k iv) = skipn (S k) iv).
  { replace (S k) with (length (firstn k (skipn 1 iv)) + 1) at 1 by lia. rewrite skipn_app.
    rewrite (skipn_all2 (n := length (firstn k (skipn 1 iv)) + 1)) by lia.
    replace (length (firstn k (skipn 1 iv)) + 1 - length (firstn k (skipn 1 iv))) with 1 by lia.
    rewrite (skipn_nth_cons k 0%N iv) by lia. reflexivity. }
  rewrite Hk.
  rewrite (firstn_S_nth k 0%N (skipn 1 iv)) by (rewrite skipn_length; lia).
  replace (nth k (skipn 1 iv) 0%N) with (nth (S k) iv 0%N)
    by (destruct iv; [simpl in H; lia|]; reflexivity).
  rewrite <- app_assoc. reflexivity.
Qed.

Lemma shl_upto_end iv r : 1 <= length iv ->
  upd_nth (length iv - 1) r (shl_upto (length iv - 1) iv) = skipn 1 iv ++ [r].
Proof.
  intros H. unfold shl_upto.
  rewrite firstn_all2 by (rewrite skipn_length; lia).
  rewrite (upd_nth_split _ _ 0%N) by (rewrite app_length, !skipn_length; lia).
  assert (Hl : length (skipn 1 iv) = length iv - 1) by (rewrite skipn_length; lia).
  rewrite firstn_app, Hl, Nat.sub_diag, firstn_O, app_nil_r, firstn_all2 by lia.
  rewrite (skipn_all2 (n := S (length iv - 1))) by (rewrite app_length, !skipn_length; lia).
  reflexivity.
Qed.

Section Cfb8.
  Variable C : cipher.
  Let X := bctx C [] [].
  Definition be_self (iv : block) : val := VStruct "Backend" [("iv", VBlk iv); ("backend", VCipher true false)].

  Lemma tie_cfb8_encrypt_block iv c :
    1 <= length iv -> 1 <= length (c_E C iv) -> 1 <= length (rd_in c) ->
    call_fn X cfb8__encrypt__BlockModeEncBackend__Backend__encrypt_block [be_self iv; VCell c]
    = let '(iv', c') := cfb8_enc_block C iv c in Some (VUnit, [be_self iv'; VCell c']).
  Proof.
    intros Hiv HE Hc. unfold call_fn, call_src.
    eval_frame.
    run_prefix 6.
    run_prefix 1.
    match goal with |- context [for_each (seq ?a0 ?n) ?body ?e0] =>
      match e0 with context [("r", ?rv)] => match e0 with context [("block", ?bv)] => match e0 with context [("$a1", ?cv)] =>
      match e0 with context [("k", ?kv)] => match e0 with context [("t", ?tv)] =>
      destruct (for_each_seq_inv
        (fun k e => e = [("n", VNat (length iv)); ("r", rv); ("k", kv); ("t", tv);
                         ("block", bv); ("$a1", cv); ("self", VRef (PVar "$a0")); ("$a0", be_self (shl_upto k iv))])
        body a0 n e0) as (e' & He & HP)
      end end end end end
    end.
    - reflexivity.
    - intros i e Hi ->. cbn [loopN].
      assert (Hl := shl_upto_length i iv ltac:(lia)).
      ev_checks.
      do 2 eexists; split; [reflexivity|].
      change (firstn i (skipn 1 iv) ++ skipn i iv) with (shl_upto i iv).
      change (firstn (S i) (skipn 1 iv) ++ skipn (S i) iv) with (shl_upto (S i) iv).
      rewrite shl_upto_nth by lia. rewrite shl_upto_step by lia. reflexivity.
    - rewrite He, HP. clear He HP. cbv beta iota.
      rewrite Nat.add_0_l.
      assert (Hl := shl_upto_length (length iv - 1) iv ltac:(lia)).
      run_rest. evf.
      change (firstn (length iv - 1 - 0) (skipn 1 iv) ++ skipn (length iv - 1 - 0) iv) with (shl_upto (length iv - 1 - 0) iv).
      rewrite !Nat.sub_0_r. change (skipn 0 (c_E C iv)) with (c_E C iv).
      rewrite shl_upto_end by lia. unfold cfb8_enc_block.
      set (c' := xor_in2out c (firstn 1 (c_E C iv))).
      assert (Hc' : 1 <= length (rd_out c')).
      { unfold c', rd_out, xor_in2out, wr_out; cbn [cout]. rewrite xorb_length, firstn_length. lia. }
      destruct (rd_out c') as [|x l]; [simpl in Hc'; lia|]. reflexivity.
  Qed.

  Lemma tie_cfb8_decrypt_block iv c :
    1 <= length iv -> 1 <= length (c_E C iv) -> 1 <= length (rd_in c) ->
    call_fn X cfb8__decrypt__BlockModeDecBackend__Backend__decrypt_block [be_self iv; VCell c]
    = let '(iv', c') := cfb8_dec_block C iv c in Some (VUnit, [be_self iv'; VCell c']).
  Proof.
    intros Hiv HE Hc. unfold call_fn, call_src.
    eval_frame.
    run_prefix 6.
    run_prefix 1.
    match goal with |- context [for_each (seq ?a0 ?n) ?body ?e0] =>
      match e0 with context [("r", ?rv)] => match e0 with context [("block", ?bv)] => match e0 with context [("$a1", ?cv)] =>
      match e0 with context [("k", ?kv)] => match e0 with context [("t", ?tv)] =>
      destruct (for_each_seq_inv
        (fun k e => e = [("n", VNat (length iv)); ("k", kv); ("r", rv); ("t", tv);
                         ("block", bv); ("$a1", cv); ("self", VRef (PVar "$a0")); ("$a0", be_self (shl_upto k iv))])
        body a0 n e0) as (e' & He & HP)
      end end end end end
    end.
    - reflexivity.
    - intros i e Hi ->. cbn [loopN].
      assert (Hl := shl_upto_length i iv ltac:(lia)).
      ev_checks.
      do 2 eexists; split; [reflexivity|].
      change (firstn i (skipn 1 iv) ++ skipn i iv) with (shl_upto i iv).
      change (firstn (S i) (skipn 1 iv) ++ skipn (S i) iv) with (shl_upto (S i) iv).
      rewrite shl_upto_nth by lia. rewrite shl_upto_step by lia. reflexivity.
    - rewrite He, HP. clear He HP. cbv beta iota.
      rewrite Nat.add_0_l.
      assert (Hl := shl_upto_length (length iv - 1) iv ltac:(lia)).
      run_rest. evf.
      change (firstn (length iv - 1 - 0) (skipn 1 iv) ++ skipn (length iv - 1 - 0) iv) with (shl_upto (length iv - 1 - 0) iv).
      rewrite !Nat.sub_0_r. change (skipn 0 (c_E C iv)) with (c_E C iv).
      rewrite shl_upto_end by lia. unfold cfb8_dec_block.
      destruct (rd_in c) as [|x l]; [simpl in Hc; lia|]. reflexivity.
  Qed.

  Lemma tie_cfb8_enc_init iv :
    call_fn X cfb8__encrypt__InnerIvInit__Encryptor__inner_iv_init [VCipher true false; VBlk iv]
    = Some (VStruct "Self" [("cipher", VCipher true false); ("iv", VBlk (cfb8_init iv))], [VCipher true false; VBlk iv]).
  Proof. run_fn. reflexivity. Qed.
  Lemma tie_cfb8_dec_init iv :
    call_fn X cfb8__decrypt__InnerIvInit__Decryptor__inner_iv_init [VCipher true false; VBlk iv]
    = Some (VStruct "Self" [("cipher", VCipher true false); ("iv", VBlk (cfb8_init iv))], [VCipher true false; VBlk iv]).
  Proof. run_fn. reflexivity. Qed.
  Lemma tie_cfb8_enc_iv_state st :
    let self := VStruct "Encryptor" [("cipher", VCipher true false); ("iv", VBlk st)] in
    call_fn X cfb8__encrypt__IvState__Encryptor__iv_state [self] = Some (VBlk (cfb8_iv_state st), [self]).
  Proof. run_fn. reflexivity. Qed.
  Lemma tie_cfb8_dec_iv_state st :
    let self := VStruct "Decryptor" [("cipher", VCipher true false); ("iv", VBlk st)] in
    call_fn X cfb8__decrypt__IvState__Decryptor__iv_state [self] = Some (VBlk (cfb8_iv_state st), [self]).
  Proof. run_fn. reflexivity. Qed.
End Cfb8.

(* ---- C03 over the translated source: the whole byte sequence ----------------------------------------- *)
From BM Require Import BlockModes_proofs Spec.
Section Cfb8Source.
  Variable C : cipher.
  Variable n : nat.                                   (* register length = the cipher's block size, >= 1 *)
  Hypothesis n_pos : 1 <= n.
  Hypothesis E_len : forall x, length x = n -> length (c_E C x) = n.
  Let X := bctx C [] [].
  Definition src_cfb8_enc_step (iv : block) (c : cell) : option (block * cell) :=
    match call_fn X cfb8__encrypt__BlockModeEncBackend__Backend__encrypt_block [be_self iv; VCell c] with
    | Some (VUnit, [VStruct _ [("iv", VBlk iv'); _]; VCell c']) => Some (iv', c') | _ => None end.
  Definition src_cfb8_dec_step (iv : block) (c : cell) : option (block * cell) :=
    match call_fn X cfb8__decrypt__BlockModeDecBackend__Backend__decrypt_block [be_self iv; VCell c] with
    | Some (VUnit, [VStruct _ [("iv", VBlk iv'); _]; VCell c']) => Some (iv', c') | _ => None end.

  Lemma shift_len (st r : list N) : length st = n -> length r = 1 -> length (skipn 1 st ++ r) = n.
  Proof. intros H1 H2. rewrite app_length, skipn_length. lia. Qed.

  Theorem C03_cfb8_enc_source s cs : length s = n -> Forall (fun c => length (rd_in c) = 1) cs ->
    fold_src src_cfb8_enc_step s cs
    = Some (cfb8_breg s (cfb8_enc_bspec (c_E C) s (map rd_in cs)), map2 wr_out cs (cfb8_enc_bspec (c_E C) s (map rd_in cs))).
  Proof.
    intros Hs Hcs.
    rewrite (fold_src_ok src_cfb8_enc_step (cfb8_enc_block C) (fun st => length st = n) (fun c => length (rd_in c) = 1)); auto.
    - now rewrite cfb8_enc_fold.
    - intros st c Hst Hc. unfold src_cfb8_enc_step, X.
      assert (HEl : length (c_E C st) = n) by (apply E_len; auto).
      rewrite (tie_cfb8_encrypt_block C st c) by lia.
      unfold cfb8_enc_block. cbn [fst]. split; [reflexivity|]. apply shift_len; auto.
      unfold rd_out, xor_in2out, wr_out; cbn [cout]. rewrite firstn_length, xorb_length, firstn_length. lia.
  Qed.

  Theorem C03_cfb8_dec_source s cs : length s = n -> Forall (fun c => length (rd_in c) = 1) cs ->
    fold_src src_cfb8_dec_step s cs
    = Some (cfb8_breg s (map rd_in cs), map2 wr_out cs (cfb8_dec_bspec (c_E C) s (map rd_in cs))).
  Proof.
    intros Hs Hcs.
    rewrite (fold_src_ok src_cfb8_dec_step (cfb8_dec_block C) (fun st => length st = n) (fun c => length (rd_in c) = 1)); auto.
    - now rewrite cfb8_dec_fold.
    - intros st c Hst Hc. unfold src_cfb8_dec_step, X.
      assert (HEl : length (c_E C st) = n) by (apply E_len; auto).
      rewrite (tie_cfb8_decrypt_block C st c) by lia.
      unfold cfb8_dec_block. cbn [fst]. split; [reflexivity|]. apply shift_len; auto. rewrite firstn_length. lia.
  Qed.
End Cfb8Source.
