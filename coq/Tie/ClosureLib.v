(* ClosureLib.v -- shared by the semantic ties of the cts closure bodies (coq/Tie/Tie_cts_closures*.v):
   the bulk step (a helper of cts/src/lib.rs run over the whole blocks of a segmented buffer), the contracts
   under which the helpers are called, and the tactic that discharges the bound checks of the interpreter
   one at a time ([ok_check]). *)
From BM Require Import Tie.TieLib Cts Cts_mem Cts_proofs Cts_spec Cts_cs_proofs Spec Spec_proofs BlockModes_proofs.
Local Open Scope string_scope.
Local Open Scope list_scope.

Lemma skipn_repeat_l {A} (x : A) k n : skipn k (repeat x n) = repeat x (n - k).
Proof. revert n; induction k as [|k IH]; intros [|n]; cbn [skipn repeat Nat.sub]; auto. Qed.

Lemma msplice_length lo len (s b : list N) : lo + len <= length b -> length s = len -> length (MirSem.splice lo len s b) = length b.
Proof. intros H1 H2. unfold MirSem.splice. rewrite !app_length, firstn_length, skipn_length. lia. Qed.

Ltac slen := unfold block in *; rewrite ?app_length, ?firstn_length, ?skipn_length, ?zeros_length, ?xor_into_length; try lia; try nia.
Ltac ok_check := match goal with
 | |- context [in_range ?a ?b] => replace (in_range a b) with true by (symmetry; apply in_range_true; slen)
 | |- context [fits ?a ?b ?c] => replace (fits a b c) with true by (symmetry; apply fits_true; slen)
 | |- context [len_eq ?a ?b] => replace (len_eq a b) with true by (symmetry; apply len_eq_true; slen)
 | |- context [le_ok ?a ?b] => replace (le_ok a b) with true by (symmetry; apply le_ok_true; slen)
 end; cbv beta iota.

Section Helpers0.
  Lemma all_len_rd_in_mkcell bs al (a b : list (list N)) : all_len bs a -> all_len bs b -> length a = length b ->
    all_len bs (map rd_in (map2 (mkcell al) a b)).
  Proof.
    intros Ha. revert b. induction Ha as [|x a Hx _ IH]; intros [|y b] Hb Hl; cbn [map2 map]; try constructor; try discriminate.
    - inversion Hb; subst. unfold rd_in; cbn. destruct al; auto.
    - inversion Hb; subst. apply IH; auto.
  Qed.

  Lemma map_rd_out_mkcell al (a b : list (list N)) : length a = length b -> map rd_out (map2 (mkcell al) a b) = b.
  Proof. revert b; induction a as [|x a IH]; intros [|y b] Hl; cbn [map2 map]; try discriminate; auto. unfold rd_out at 1; cbn [cout]. f_equal. apply IH. cbn in Hl. lia. Qed.

  Lemma outs_wr_mkcell al (a b c : list (list N)) : length a = length b -> length b = length c ->
    outs_of (map2 wr_out (map2 (mkcell al) a b) c) = concat c.
  Proof. intros H1 H2. unfold outs_of. rewrite map_cout_wr; auto. rewrite map2_length. unfold block in *. lia. Qed.

End Helpers0.

(* ---- the bulk step common to all closures: a helper of cts/src/lib.rs over the whole blocks ---------- *)
Section Bulk.
  Variable C : cipher.
  Let bs := c_bs C.
  Hypothesis bs_pos : 0 < bs.
  Context {S : Type}.
  Variable f : S -> list cell -> S * list cell.
  Variable g : S -> list (list N) -> S.
  Variable h : S -> list (list N) -> list (list N).
  Hypothesis Hf : forall st cs, f st cs = (g st (map rd_in cs), map2 wr_out cs (h st (map rd_in cs))).
  Hypothesis Hh : forall st bl, all_len bs bl -> length (h st bl) = length bl /\ all_len bs (h st bl).

  Lemma bulk st al ib it ob ot nb :
    all_len bs ib -> all_len bs ob -> length ib = nb -> length ob = nb -> length it = length ot ->
    let i := concat ib ++ it in let o := concat ob ++ ot in
    let cells0 := cells_of bs al (firstn (nb * bs) (skipn 0 i)) (firstn (nb * bs) (skipn 0 o)) in
    let Cs := h st (map rd_in (map2 (mkcell al) ib ob)) in
    cells0 = map2 (mkcell al) ib ob /\ length Cs = nb /\ all_len bs Cs /\
    f st cells0 = (g st (map rd_in (map2 (mkcell al) ib ob)), map2 wr_out (map2 (mkcell al) ib ob) Cs) /\
    outs_of (snd (f st cells0)) = concat Cs /\
    mrun C f st (mkmem al i o) 0 nb = Ok (fst (f st cells0), mkmem al i (concat Cs ++ ot)).
  Proof.
    intros Hib Hob Hn1 Hn2 Htl i o cells0 Cs.
    assert (Hci : length (concat ib) = nb * bs) by (rewrite (all_len_concat_length bs) by auto; lia).
    assert (Hco : length (concat ob) = nb * bs) by (rewrite (all_len_concat_length bs) by auto; lia).
    assert (E0 : cells0 = map2 (mkcell al) ib ob).
    { unfold cells0, i, o. cbn [skipn]. unfold cells_of. rewrite !firstn_app_exact by lia. rewrite !(chunks_blocks_only C) by auto. reflexivity. }
    assert (Hcl : length (map2 (mkcell al) ib ob) = nb) by (rewrite map2_length; unfold block in *; lia).
    destruct (Hh st (map rd_in (map2 (mkcell al) ib ob))) as [HCl HCa].
    { apply all_len_rd_in_mkcell; auto; lia. }
    fold Cs in HCl, HCa. rewrite map_length, Hcl in HCl.
    assert (Ef : f st cells0 = (g st (map rd_in (map2 (mkcell al) ib ob)), map2 wr_out (map2 (mkcell al) ib ob) Cs)).
    { rewrite E0. apply Hf. }
    assert (Eo : outs_of (snd (f st cells0)) = concat Cs).
    { rewrite Ef. cbn [snd]. apply outs_wr_mkcell; lia. }
    repeat split; auto.
    unfold mrun. change (mcells C (mkmem al i o) 0 nb) with cells0.
    destruct (f st cells0) as [st' cs'] eqn:Efs. cbn [snd fst] in *. rewrite Eo.
    unfold mput_out. cbn [m_out m_al m_in].
    assert (Hol : length (concat Cs) = nb * bs) by (rewrite (all_len_concat_length bs) by auto; unfold block in *; nia).
    replace (Nat.leb (0 + length (concat Cs)) (length o)) with true by (symmetry; apply Nat.leb_le; unfold o; rewrite app_length; lia).
    cbn [obind]. do 3 f_equal. unfold o, splice. cbn [firstn app Nat.add]. rewrite Hol, <- Hco, skipn_app_exact by reflexivity. reflexivity.
  Qed.
End Bulk.


(* the same with the shape of the helper's result required for the given initial state only (CBC: |iv| = bs) *)
Section BulkS.
  Variable C : cipher.
  Let bs := c_bs C.
  Hypothesis bs_pos : 0 < bs.
  Context {S : Type}.
  Variable f : S -> list cell -> S * list cell.
  Variable g : S -> list (list N) -> S.
  Variable h : S -> list (list N) -> list (list N).
  Hypothesis Hf : forall st cs, f st cs = (g st (map rd_in cs), map2 wr_out cs (h st (map rd_in cs))).

  Lemma bulkS st al ib it ob ot nb :
    (forall bl, all_len bs bl -> length (h st bl) = length bl /\ all_len bs (h st bl)) ->
    all_len bs ib -> all_len bs ob -> length ib = nb -> length ob = nb -> length it = length ot ->
    let i := concat ib ++ it in let o := concat ob ++ ot in
    let cells0 := cells_of bs al (firstn (nb * bs) (skipn 0 i)) (firstn (nb * bs) (skipn 0 o)) in
    let Cs := h st (map rd_in (map2 (mkcell al) ib ob)) in
    cells0 = map2 (mkcell al) ib ob /\ length Cs = nb /\ all_len bs Cs /\
    f st cells0 = (g st (map rd_in (map2 (mkcell al) ib ob)), map2 wr_out (map2 (mkcell al) ib ob) Cs) /\
    outs_of (snd (f st cells0)) = concat Cs /\
    mrun C f st (mkmem al i o) 0 nb = Ok (fst (f st cells0), mkmem al i (concat Cs ++ ot)).
  Proof.
    intros Hh Hib Hob Hn1 Hn2 Htl i o cells0 Cs.
    assert (Hci : length (concat ib) = nb * bs) by (rewrite (all_len_concat_length bs) by auto; lia).
    assert (Hco : length (concat ob) = nb * bs) by (rewrite (all_len_concat_length bs) by auto; lia).
    assert (E0 : cells0 = map2 (mkcell al) ib ob).
    { unfold cells0, i, o. cbn [skipn]. unfold cells_of. rewrite !firstn_app_exact by lia. rewrite !(chunks_blocks_only C) by auto. reflexivity. }
    assert (Hcl : length (map2 (mkcell al) ib ob) = nb) by (rewrite map2_length; unfold block in *; lia).
    destruct (Hh (map rd_in (map2 (mkcell al) ib ob))) as [HCl HCa].
    { apply all_len_rd_in_mkcell; auto; lia. }
    fold Cs in HCl, HCa. rewrite map_length, Hcl in HCl.
    assert (Ef : f st cells0 = (g st (map rd_in (map2 (mkcell al) ib ob)), map2 wr_out (map2 (mkcell al) ib ob) Cs)).
    { rewrite E0. apply Hf. }
    assert (Eo : outs_of (snd (f st cells0)) = concat Cs).
    { rewrite Ef. cbn [snd]. apply outs_wr_mkcell; lia. }
    repeat split; auto.
    unfold mrun. change (mcells C (mkmem al i o) 0 nb) with cells0.
    destruct (f st cells0) as [st' cs'] eqn:Efs. cbn [snd fst] in *. rewrite Eo.
    unfold mput_out. cbn [m_out m_al m_in].
    assert (Hol : length (concat Cs) = nb * bs) by (rewrite (all_len_concat_length bs) by auto; unfold block in *; nia).
    replace (Nat.leb (0 + length (concat Cs)) (length o)) with true by (symmetry; apply Nat.leb_le; unfold o; rewrite app_length; lia).
    cbn [obind]. do 3 f_equal. unfold o, splice. cbn [firstn app Nat.add]. rewrite Hol, <- Hco, skipn_app_exact by reflexivity. reflexivity.
  Qed.
End BulkS.

(* contracts of the helpers of cts/src/lib.rs (tied to the source in Tie_cts_helpers.v / Tie_cts_cbcdec.v) *)
Definition ee_cs (C : cipher) cs := snd (cts_ecb_enc C tt cs).
Definition ecb_enc_sem (C : cipher) (args : list val) : option (val * list val) :=
  match args with
  | [c; VCells cs] => Some (VUnit, [c; VCells (ee_cs C cs)])
  | _ => None
  end.
Definition ed_cs (C : cipher) cs := snd (cts_ecb_dec C tt cs).
Definition ecb_dec_sem (C : cipher) (args : list val) : option (val * list val) :=
  match args with
  | [c; VCells cs] => Some (VUnit, [c; VCells (ed_cs C cs)])
  | _ => None
  end.
Definition ce_iv (C : cipher) iv cs := fst (cts_cbc_enc C iv cs).
Definition ce_cs (C : cipher) iv cs := snd (cts_cbc_enc C iv cs).
Definition cbc_enc_sem (C : cipher) (args : list val) : option (val * list val) :=
  match args with
  | [c; VBlk iv; VCells cs] => Some (VUnit, [c; VBlk (ce_iv C iv cs); VCells (ce_cs C iv cs)])
  | _ => None
  end.
(* core::mem::replace(dest, src): returns the old *dest, *dest := src *)
Definition replace_sem (args : list val) : option (val * list val) :=
  match args with [x; y] => Some (x, [y; y]) | _ => None end.
(* core::mem::swap(a, b) *)
Definition swap_sem (args : list val) : option (val * list val) :=
  match args with [x; y] => Some (VUnit, [y; x]) | _ => None end.

Definition eenv (enc : bool) (al : bool) (i o : list N) : env :=
  [("cipher", VCipher enc (negb enc)); ("self", VStruct "Closure" [("buf", VBuf al i o)])].
Definition cenv (enc : bool) (iv : block) (al : bool) (i o : list N) : env :=
  [("cipher", VCipher enc (negb enc)); ("self", VStruct "Closure" [("iv", VBlk iv); ("buf", VBuf al i o)])].

Lemma all_len_map_f (f : block -> block) n bl : (forall x, length x = n -> length (f x) = n) -> all_len n bl -> all_len n (map f bl).
Proof. intros Hf. induction 1; cbn [map]; constructor; auto. Qed.
