(* Tie_cts_cbcdec.v -- `cbc_dec` of cts/src/lib.rs (the crate's private copy of CBC decryption with its own chunking into
   groups of the backend's parallel width, the hand-written parallel body inside the group loop, and the loop over the
   remaining blocks) computes the block-at-a-time CBC decryption fold of the model, chaining value included, for every
   width and every number of blocks; `xor` of the same file. *)
From BM Require Import Tie.TieLib Cts Cts_proofs BlockModes_proofs.
From BMGen Require Import Src_cts.
Local Open Scope string_scope.
Local Open Scope list_scope.

Section CtsH.
  Variable C : cipher.
  Let bs := c_bs C.
  Let w := c_w C.
  Hypothesis w_pos : 0 < w.
  Let X := bctx C [("xor", FSem xor_sem)] [("B::ParBlocksSize::USIZE", VNat w); ("into_chunks::N", VNat w)].

  Lemma cseg_read (P Q : list cell) k0 r : k0 = length P -> r = length Q -> firstn r (skipn k0 (P ++ Q)) = Q.
  Proof. intros -> ->. rewrite skipn_app_exact by reflexivity. apply firstn_all. Qed.
  Lemma cseg_write (P Q Y : list cell) k0 r : k0 = length P -> r = length Q -> csplice k0 r Y (P ++ Q) = P ++ Y.
  Proof. intros -> ->. unfold csplice. rewrite firstn_app_exact by reflexivity.
    rewrite <- app_length, skipn_all. now rewrite app_nil_r. Qed.
  Lemma firstn_In_ {A} n (l : list A) x : In x (firstn n l) -> In x l.
  Proof. revert l; induction n as [|n IH]; intros [|y l] H; cbn [firstn] in *; try contradiction. destruct H; [left; auto | right; auto]. Qed.
  Lemma skipn_In_ {A} n (l : list A) x : In x (skipn n l) -> In x l.
  Proof. revert l; induction n as [|n IH]; intros [|y l] H; cbn [skipn] in *; auto. right; auto. Qed.
  Lemma seg_read_cells (P G R : list cell) k n : k = length P -> n = length G -> firstn n (skipn k (P ++ G ++ R)) = G.
  Proof. intros -> ->. rewrite skipn_app_exact by reflexivity. now apply firstn_app_exact. Qed.
  Lemma seg_write_cells (P G R S : list cell) k n : k = length P -> n = length G -> csplice k n S (P ++ G ++ R) = P ++ S ++ R.
  Proof. intros -> ->. unfold csplice. rewrite firstn_app_exact by reflexivity.
    rewrite (app_assoc P G R), skipn_app_exact by (now rewrite app_length). reflexivity. Qed.

  (* a left-to-right loop over the cells with a state: what is done after k cells *)
  Lemma fold_cells_snoc {S} (f : S -> cell -> S * cell) st l c :
    fold_cells f st (l ++ [c]) =
    let '(st1, o) := fold_cells f st l in let '(st2, c') := f st1 c in (st2, o ++ [c']).
  Proof. rewrite fold_cells_app. destruct (fold_cells f st l) as [st1 o]. cbn [fold_cells].
    destruct (f st1 c) as [st2 c']. reflexivity. Qed.

  Lemma upd_nth_mid {A} (o rest : list A) c c' k : k = length o ->
    upd_nth k c' (o ++ c :: rest) = (o ++ [c']) ++ rest.
  Proof. intros ->. induction o as [|x o IH]; cbn [length app upd_nth]; [reflexivity|]. now rewrite IH. Qed.

  Lemma nth_mid {A} (o rest : list A) c d k : k = length o -> nth k (o ++ c :: rest) d = c.
  Proof. intros ->. rewrite app_nth2, Nat.sub_diag by lia. reflexivity. Qed.

  (* cbc_dec with parallel width 1: the chunking branch is skipped, a plain loop over the blocks *)
  Lemma tie_cts_cbc_dec_w1 iv cs :
    Forall (fun c => length (rd_in c) = length iv) cs -> (forall x, length x = length iv -> length (c_D C x) = length iv) -> w = 1 ->
    call_fn X cts__lib__cbc_dec [VCipher false true; VBlk iv; VCells cs]
    = let '(iv', cs') := fold_cells (cts_cbc_dec_block C) iv cs in Some (VUnit, [VCipher false true; VBlk iv'; VCells cs']).
  Proof.
    intros Hcs HE Hw1. unfold call_fn, call_src.
    assert (F0 : in_range 1 (c_w C) = false) by (apply in_range_false; fold w; lia).
    eval_frame. run_prefix 1. run_rest.
    match goal with |- context [for_each (seq ?a0 ?m) ?body ?e0] =>
      destruct (for_each_seq_inv
        (fun k e => length (fst (fold_cells (cts_cbc_dec_block C) iv (firstn k cs))) = length iv /\
                    e = [("blocks", VRef (PVar "$a2"));
                         ("$a2", VCells (snd (fold_cells (cts_cbc_dec_block C) iv (firstn k cs)) ++ skipn k cs));
                         ("iv", VRef (PVar "$a1")); ("$a1", VBlk (fst (fold_cells (cts_cbc_dec_block C) iv (firstn k cs))));
                         ("cipher", VRef (PVar "$a0")); ("$a0", VCipher false true)])
        body a0 m e0) as (e' & He & HP)
    end.
    - split; reflexivity.
    - intros k e Hk [Hlen ->]. cbn [loopN].
      assert (Hol : length (snd (fold_cells (cts_cbc_dec_block C) iv (firstn k cs))) = k).
      { rewrite fold_cells_length, firstn_length. lia. }
      rewrite (firstn_S_nth k dummy_cell cs) by lia. rewrite fold_cells_snoc.
      destruct (fold_cells (cts_cbc_dec_block C) iv (firstn k cs)) as [ivk ok] eqn:Ek. cbn [fst snd] in *.
      rewrite (skipn_nth_cons k dummy_cell cs) by lia.
      remember (nth k cs dummy_cell) as c eqn:Ec.
      assert (Hc : length (rd_in c) = length iv).
      { subst c. eapply Forall_forall in Hcs; [exact Hcs|]. apply nth_In. lia. }
      assert (F1 : in_range k (length (ok ++ c :: skipn (S k) cs)) = true)
        by (apply in_range_true; rewrite app_length; cbn [length]; lia).
      ev_checks. do 2 eexists; split; [reflexivity|].
      change {| alias := false; cin := []; cout := [] |} with dummy_cell.
      rewrite !(nth_mid ok (skipn (S k) cs) c dummy_cell k) by lia.
      rewrite (upd_nth_mid ok (skipn (S k) cs) c) by lia.
      rewrite xor_into_eq by (rewrite HE; lia).
      split; [exact Hc | reflexivity].
    - destruct HP as [_ HP]. rewrite He, HP. clear He HP. cbv beta iota. rewrite Nat.add_0_l, firstn_all, skipn_all, app_nil_r.
      destruct (fold_cells (cts_cbc_dec_block C) iv cs) as [iv' cs']. cbn [fst snd]. evf_l. reflexivity.
  Qed.


  Lemma tie_cts_cbc_dec_par iv cs :
    Forall (fun c => length (rd_in c) = length iv) cs -> (forall x, length x = length iv -> length (c_D C x) = length iv) -> 1 < w ->
    call_fn X cts__lib__cbc_dec [VCipher false true; VBlk iv; VCells cs]
    = let '(iv', cs') := fold_cells (cts_cbc_dec_block C) iv cs in Some (VUnit, [VCipher false true; VBlk iv'; VCells cs']).
  Proof.
    intros Hcs HE Hw1. unfold call_fn, call_src.
    assert (Hwc : 1 < c_w C) by (fold w; lia).
    assert (F0 : in_range 1 (c_w C) = true) by (apply in_range_true; fold w; lia).
    assert (F00 : in_range 0 (c_w C) = true) by (apply in_range_true; fold w; lia).
    eval_frame. run_prefix 1.
    remember (ndiv (length cs) (c_w C)) as n eqn:En.
    assert (Hnw : n * c_w C <= length cs).
    { subst n. unfold ndiv. rewrite Nat.mul_comm. apply Nat.mul_div_le. fold w. lia. }
    pose (f := cts_cbc_dec_block C).
    match goal with |- context [for_each (seq ?a0 ?m) ?body ?e0] =>
      match e0 with context [("rem_blocks", ?rv)] => match e0 with context [("par_blocks", ?pv)] =>
      destruct (for_each_seq_inv
        (fun j e => length (fst (fold_cells f iv (firstn (j * c_w C) cs))) = length iv /\
                    e = [("rem_blocks", rv); ("par_blocks", pv); ("blocks", rv);
                         ("$a2", VCells (snd (fold_cells f iv (firstn (j * c_w C) cs)) ++ skipn (j * c_w C) cs));
                         ("iv", VRef (PVar "$a1")); ("$a1", VBlk (fst (fold_cells f iv (firstn (j * c_w C) cs))));
                         ("cipher", VRef (PVar "$a0")); ("$a0", VCipher false true)])
        body a0 m e0) as (e' & He & HP)
      end end
    end.
    - split; reflexivity.
    - intros j e Hj [Hlen ->]. rewrite (loopN_S _ 2).
      unfold loop_step at 1. cbn [bind_pat group_item]. unfold run_block at 1.
      remember (j * c_w C) as k eqn:Ek0.
      assert (Hkw : k + c_w C <= length cs) by (subst k; nia).
      destruct (fold_cells f iv (firstn k cs)) as [ivk ok] eqn:Ek. cbn [fst snd] in *.
      assert (Hok : length ok = k).
      { pose proof (fold_cells_length f iv (firstn k cs)) as Hfl. rewrite Ek in Hfl. cbn [snd] in Hfl.
        rewrite Hfl, firstn_length. lia. }
      remember (firstn (c_w C) (skipn k cs)) as g eqn:Eg.
      remember (skipn (k + c_w C) cs) as rest eqn:Erest.
      assert (Hsk : skipn k cs = g ++ rest).
      { subst g rest. rewrite skipn_add. symmetry. apply firstn_skipn. }
      assert (Hg : length g = c_w C) by (subst g; rewrite firstn_length, skipn_length; lia).
      assert (Hgl : Forall (fun c => length (rd_in c) = length iv) g).
      { apply Forall_forall. intros x Hx. eapply Forall_forall in Hcs; [exact Hcs|].
        subst g. apply firstn_In_ in Hx. eapply skipn_In_; eauto. }
      rewrite Hsk.
      assert (F1 : fits k (c_w C) (length (ok ++ g ++ rest)) = true)
        by (apply fits_true; rewrite !app_length; lia).
      assert (Erd : firstn (c_w C) (skipn k (ok ++ g ++ rest)) = g) by (apply seg_read_cells; lia).
      run_prefix 4. rewrite !Erd.
      remember (map rd_in g) as inb eqn:Einb. remember (map (c_D C) inb) as T eqn:ET. unfold block in *.
      rewrite <- ?Einb. rewrite <- ?ET.
      assert (HT : length T = c_w C) by (subst T inb; now rewrite !map_length).
      assert (Hin : length inb = c_w C) by (subst inb; now rewrite map_length).
      run_prefix 1. run_prefix 1.
      match goal with |- context [for_each (seq ?a0 ?m) ?body ?e0] =>
        match e0 with context [("blocks", ?bv)] => match e0 with context [("rem_blocks", ?rv)] =>
        match e0 with context [("par_blocks", ?pv)] => match e0 with context [("$a2", ?cv)] =>
        destruct (for_each_seq_inv
          (fun i e => e = [("n", VNat (length T)); ("t", VBlks (upto xor_into i T (ivk :: inb))); ("in_blocks", VBlks inb);
                           ("blocks", bv); ("rem_blocks", rv); ("par_blocks", pv); ("blocks", rv); ("$a2", cv);
                           ("iv", VRef (PVar "$a1")); ("$a1", VBlk ivk); ("cipher", VRef (PVar "$a0")); ("$a0", VCipher false true)])
          body a0 m e0) as (e2 & He2 & HP2)
        end end end end
      end.
      + unfold upto. rewrite (upd_nth_split _ _ []) by (rewrite HT; lia). destruct T as [|t0 T']; [cbn [length] in HT; lia|]. reflexivity.
      + intros i e Hi ->. cbn [loopN]. ev_checks.
        do 2 eexists; split; [reflexivity|]. rewrite ?upd_nth_id.
        replace (nth (i - 1) inb []) with (nth i (ivk :: inb) []) by (destruct i; [lia|]; simpl; now rewrite Nat.sub_0_r).
        rewrite upto_step by (simpl length; lia). reflexivity.
      + rewrite He2, HP2. clear He2 HP2. cbv beta iota.
        replace (1 + (length T - 1)) with (length T) by lia.
        assert (Hle : length T <= length (ivk :: inb)) by (cbn [length]; lia).
        rewrite (upto_all xor_into T (ivk :: inb) Hle).
        remember (map2 xor_into T (ivk :: inb)) as t2 eqn:Et2.
        assert (Ht2 : length t2 = c_w C) by (subst t2; rewrite map2_length; cbn [length]; lia).
        assert (G1 : len_eq (length (firstn (c_w C) (skipn k (ok ++ g ++ rest)))) (length t2) = true).
        { apply len_eq_true. rewrite Erd. unfold block in *. lia. }
        assert (G2 : len_eq (length (map2 wr_out (firstn (c_w C) (skipn k (ok ++ g ++ rest))) t2)) (c_w C) = true).
        { apply len_eq_true. rewrite Erd, map2_length. unfold block in *. lia. }
        assert (G3 : le_ok 1 (length T) = true) by (apply le_ok_true; lia).
        assert (G4 : in_range (length T - 1) (length inb) = true) by (apply in_range_true; lia).
        run_prefix 1. rewrite !Erd.
        rewrite (seg_write_cells ok g rest) by lia.
        run_rest.
        do 2 eexists; split; [cbv [pop_to elen edrop psub]; reflexivity|].
        (* the group is the model's fold over its w cells *)
        replace (S j * c_w C) with (k + c_w C) by (subst k; lia).
        rewrite firstn_add, <- Eg, fold_cells_app, Ek.
        unfold f. rewrite cts_cbc_dec_block_eq, <- cbc_dec_par_ok. unfold cbc_dec_par. cbn [fst snd]. unfold block in *.
        rewrite <- !Einb, <- !ET.
        assert (Hxx : map2 xorb T (ivk :: inb) = t2).
        { subst t2 T inb. clear -Hgl HE Hlen. revert ivk Hlen. induction Hgl as [|c g Hc _ IH]; intros ivk Hlen; [reflexivity|].
          cbn [map map2]. rewrite xor_into_eq by (rewrite HE; lia). f_equal. apply IH. exact Hc. }
        rewrite Hxx. rewrite <- ?Erest.
        assert (Hlast : last inb ivk = nth (length T - 1) inb []).
        { rewrite (last_nth inb ivk []) by (destruct inb; [cbn [length] in Hin; lia | discriminate]). now rewrite HT, Hin. }
        rewrite Hlast. split.
        * assert (Hin' : In (nth (length T - 1) inb []) inb) by (apply nth_In; lia).
          subst inb. apply in_map_iff in Hin'. destruct Hin' as (c & <- & Hc). eapply Forall_forall in Hgl; eauto.
        * rewrite <- !app_assoc. reflexivity.
    - rewrite Nat.add_0_l in HP. destruct HP as [Hlen0 HP]. rewrite He, HP. clear He HP. cbv beta iota.
      remember (n * c_w C) as k0 eqn:Ek0. remember (length cs - k0) as r eqn:Er.
      destruct (fold_cells f iv (firstn k0 cs)) as [iv0 o0] eqn:E0. cbn [fst snd] in *.
      assert (Ho0 : length o0 = k0).
      { pose proof (fold_cells_length f iv (firstn k0 cs)) as Hfl. rewrite E0 in Hfl. cbn [snd] in Hfl.
        rewrite Hfl, firstn_length. lia. }
      remember (skipn k0 cs) as Tl eqn:ETl.
      assert (HTl : length Tl = r) by (subst Tl; rewrite skipn_length; lia).
      assert (HTll : Forall (fun c => length (rd_in c) = length iv) Tl).
      { apply Forall_forall. intros x Hx. eapply Forall_forall in Hcs; [exact Hcs|]. subst Tl. eapply skipn_In_; eauto. }
      assert (F2 : forall Q, length Q = r -> fits k0 r (length (o0 ++ Q)) = true)
        by (intros Q HQ; apply fits_true; rewrite app_length; lia).
      pose proof (F2 Tl HTl) as F20.
      run_rest. rewrite (cseg_read o0 Tl) by lia. rewrite HTl.
      match goal with |- context [for_each (seq ?a0 ?m) ?body ?e0] =>
        match e0 with context [("blocks", ?bv)] =>
        destruct (for_each_seq_inv
          (fun i e => length (fst (fold_cells f iv0 (firstn i Tl))) = length iv /\
                      e = [("blocks", bv); ("$a2", VCells (o0 ++ snd (fold_cells f iv0 (firstn i Tl)) ++ skipn i Tl));
                           ("iv", VRef (PVar "$a1")); ("$a1", VBlk (fst (fold_cells f iv0 (firstn i Tl))));
                           ("cipher", VRef (PVar "$a0")); ("$a0", VCipher false true)])
          body a0 m e0) as (e'' & He & HP')
        end
      end.
      + split; [exact Hlen0 | reflexivity].
      + intros i e Hi [Hleni ->]. cbn [loopN].
        assert (Hol : length (snd (fold_cells f iv0 (firstn i Tl))) = i).
        { rewrite fold_cells_length, firstn_length. lia. }
        rewrite (firstn_S_nth i dummy_cell Tl) by lia. rewrite fold_cells_snoc.
        destruct (fold_cells f iv0 (firstn i Tl)) as [ivi oi] eqn:Ei. cbn [fst snd] in *.
        rewrite (skipn_nth_cons i dummy_cell Tl) by lia.
        remember (nth i Tl dummy_cell) as c eqn:Ec.
        assert (Hc : length (rd_in c) = length iv).
        { subst c. eapply Forall_forall in HTll; [exact HTll|]. apply nth_In. lia. }
        remember (skipn (S i) Tl) as rest eqn:Erest.
        assert (Hrest : length rest = r - S i) by (subst rest; rewrite skipn_length; lia).
        assert (HQ : length (oi ++ c :: rest) = r) by (rewrite app_length; cbn [length]; lia).
        pose proof (F2 _ HQ) as F2i.
        assert (Er1 : firstn r (skipn k0 (o0 ++ oi ++ c :: rest)) = oi ++ c :: rest) by (apply cseg_read; lia).
        assert (F3 : in_range i (length (firstn r (skipn k0 (o0 ++ oi ++ c :: rest)))) = true)
          by (apply in_range_true; rewrite Er1, HQ; lia).
        ev_checks. do 2 eexists; split; [reflexivity|].
        change {| alias := false; cin := []; cout := [] |} with dummy_cell.
        rewrite !Er1.
        rewrite !(nth_mid oi rest c dummy_cell i) by lia.
        rewrite (upd_nth_mid oi rest c) by lia.
        rewrite (cseg_write o0 (oi ++ c :: rest)) by lia.
        rewrite xor_into_eq by (rewrite HE; lia).
        split; [exact Hc|]. unfold f, cts_cbc_dec_block. cbn [fst snd]. rewrite <- !app_assoc. reflexivity.
      + destruct HP' as [_ HP']. rewrite He, HP'. clear He HP'. cbv beta iota. rewrite Nat.add_0_l.
        rewrite <- HTl, firstn_all, skipn_all, app_nil_r.
        assert (Hfold : fold_cells f iv cs = let '(iv1, o1) := fold_cells f iv0 Tl in (iv1, o0 ++ o1)).
        { rewrite <- (firstn_skipn k0 cs) at 1. rewrite fold_cells_app, E0, <- ETl. reflexivity. }
        fold f. rewrite Hfold. destruct (fold_cells f iv0 Tl) as [iv1 o1]. cbn [fst snd]. evf_l. reflexivity.
  Qed.
End CtsH.

(* fn xor of cts/src/lib.rs *)
Lemma tie_cts_xor C a b :
  call_fn (bctx C [] []) cts__lib__xor [VBlk a; VBlk b] = xor_sem [VBlk a; VBlk b].
Proof.
  unfold call_fn, call_src. ev.
  match goal with |- context [for_each (seq ?a0 ?n) ?body ?e0] =>
    destruct (for_each_seq_inv
      (fun k e => e = [("buf", VRef (PVar "$a1")); ("$a1", VBlk b); ("out", VRef (PVar "$a0"));
                       ("$a0", VBlk (xor_upto k a b))])
      body a0 n e0) as (e' & He & HP)
  end.
  - reflexivity.
  - intros i e Hi ->. unfold LOOP_DEPTH. cbn [loopN]. ev_checks.
    do 2 eexists; split; [reflexivity|]. rewrite xor_upto_step by lia. reflexivity.
  - rewrite He, HP. evf. rewrite Nat.add_0_l, xor_upto_end. reflexivity.
Qed.

(* the model's helper (blocks_ctx over the model's bodies) is that fold *)
Lemma cts_cbc_dec_fold_eq C iv cs : 0 < c_w C -> cts_cbc_dec C iv cs = fold_cells (cts_cbc_dec_block C) iv cs.
Proof. intros Hw. unfold cts_cbc_dec. rewrite blocks_ctx_fold; [reflexivity|].
  intros st ch _. rewrite cts_cbc_dec_par_eq, cts_cbc_dec_block_eq. apply cbc_dec_par_ok. Qed.
