(* Tie_cts_closures_ecb1enc.v -- semantic tie of a closure body of cts/src/*_cs*.rs (the code that runs inside
   encrypt_with_backend / decrypt_with_backend) to the byte-granular model of coq/Cts.v; see Tie_cts_closures.v. *)
From BM Require Import Tie.TieLib Tie.ClosureLib Cts Cts_mem Cts_proofs Cts_spec Cts_cs_proofs Spec Spec_proofs BlockModes_proofs.
From BMGen Require Import Src_cts.
Local Open Scope string_scope.
Local Open Scope list_scope.

Section EcbCs1Enc.
  Variable C : cipher.
  Let bs := c_bs C.
  Hypothesis bs_pos : 0 < bs.
  Hypothesis E_len : forall x, length x = bs -> length (c_E C x) = bs.
  Let X := bctx C [("ecb_enc", FSem (ecb_enc_sem C))]
                  [("into_chunks::BS", VNat bs); ("Block::<B>::default()", VBlk (zeros bs)); ("B::BlockSize::USIZE", VNat bs)].


  Lemma tie_cts__ecb_cs1__BlockCipherEncClosure__Closure__call al ib it ob ot :
    all_len bs ib -> all_len bs ob -> length ib = length ob -> 1 <= length ib ->
    length it = length ot -> length ot < bs ->
    exists e' o', run_body X (eenv true al (concat ib ++ it) (concat ob ++ ot)) cts__ecb_cs1__BlockCipherEncClosure__Closure__call = Some (e', VUnit)
      /\ lookup "buf" e' = Some (VBuf al (concat ib ++ it) o')
      /\ ecb_cs1_enc C (mkmem al (concat ib ++ it) (concat ob ++ ot)) = Ok (mkmem al (concat ib ++ it) o').
  Proof.
    intros Hib Hob Hnb Hnb1 Htl Htl2. unfold run_body. unfold block in *.
    remember (length ib) as nb eqn:Enb.
    destruct (bulk C bs_pos (cts_ecb_enc C) (fun _ _ => tt) (fun _ bl => map (c_E C) bl) (cts_ecb_enc_eq C)
               (fun _ bl H => conj (map_length _ _) (all_len_map_f (c_E C) bs bl E_len H)) tt al ib it ob ot nb Hib Hob (eq_sym Enb) (eq_sym Hnb) Htl)
      as (Ecells & HCl & HCa & Ecbc & Eouts & Emain).
    remember (length ot) as tl eqn:Etl.
    fold bs in Ecells, HCl, HCa, Ecbc, Eouts, Emain.
    remember (map (c_E C) (map rd_in (map2 (mkcell al) ib ob))) as Cs eqn:ECs.
    assert (Hci : length (concat ib) = nb * bs) by (rewrite (all_len_concat_length bs) by auto; lia).
    assert (Hco : length (concat ob) = nb * bs) by (rewrite (all_len_concat_length bs) by auto; lia).
    remember (concat ib ++ it) as i eqn:Ei. remember (concat ob ++ ot) as o eqn:Eo.
    assert (HLi : length i = nb * bs + tl) by (subst i; rewrite app_length; lia).
    assert (HLo : length o = nb * bs + tl) by (subst o; rewrite app_length; lia).
    assert (Hdiv : ndiv (length o) bs = nb).
    { unfold ndiv. rewrite HLo. symmetry. apply (Nat.div_unique _ _ _ tl); lia. }
    assert (F0 : in_range 0 (c_bs C) = true) by (apply in_range_true; fold bs; lia).
    run_prefix 2. fold bs. rewrite Hdiv. replace (length o - nb * bs) with tl by lia.
    remember (cells_of bs al (firstn (nb * bs) (skipn 0 i)) (firstn (nb * bs) (skipn 0 o))) as cells0 eqn:Ec0.
    assert (Eouts' : outs_of (ee_cs C cells0) = concat Cs) by exact Eouts.
    assert (Hol : length (concat Cs) = nb * bs).
    { rewrite (all_len_concat_length bs) by auto. unfold block in *. nia. }
    assert (Eo1 : MirSem.splice 0 (nb * bs) (concat Cs) o = concat Cs ++ ot).
    { subst o. apply seg_write_head. lia. }
    assert (F1 : fits 0 (nb * bs) (length o) = true) by (apply fits_true; lia).
    assert (F2 : fits 0 (nb * bs) (length i) = true) by (apply fits_true; lia).
    assert (F3 : len_eq (length (concat Cs)) (nb * bs) = true) by (apply len_eq_true; exact Hol).
    assert (Emodel : ecb_cs1_enc C (mkmem al i o) =
       if Nat.eqb tl 0 then Ok (mkmem al i (concat Cs ++ ot)) else
       do lastoff <- usub nb 1;
       do last_block <- mget_out (mkmem al i (concat Cs ++ ot)) (lastoff * bs) bs;
       do tin <- mget_in (mkmem al i (concat Cs ++ ot)) (nb * bs) tl;
       do pos <- usub (length o) bs;
       mput_out (mkmem al i (concat Cs ++ ot)) pos (c_E C (mix tin last_block))).
    { unfold ecb_cs1_enc. fold bs. unfold mlen. cbn [m_out].
      assert (Hd : length o / bs = nb) by (rewrite HLo; symmetry; apply (Nat.div_unique _ _ _ tl); lia).
      assert (Hm : length o mod bs = tl) by (rewrite HLo; symmetry; apply (Nat.mod_unique _ _ nb); lia).
      rewrite Hd, Hm. replace (Nat.ltb (length o) bs) with false by (symmetry; apply Nat.ltb_ge; nia).
      rewrite Emain. cbn [obind]. destruct (cts_ecb_enc C tt cells0). reflexivity. }
    unfold bs in F1, F2, F3.
    Opaque ee_cs cells_of outs_of.
    run_prefix 1.
    match goal with |- context [outs_of (ee_cs C ?a)] => replace (outs_of (ee_cs C a)) with (concat Cs) by (symmetry; subst cells0; exact Eouts') end.
    match goal with |- context [len_eq ?a ?b] => replace (len_eq a b) with true by (symmetry; exact F3) end. cbv beta iota.
    match goal with |- context [MirSem.splice ?a ?b ?c ?d] => replace (MirSem.splice a b c d) with (concat Cs ++ ot) by (symmetry; exact Eo1) end.
    assert (HL1 : length (concat Cs ++ ot) = nb * bs + tl) by (rewrite app_length; lia).
    assert (G1 : fits (nb * bs) tl (length (concat Cs ++ ot)) = true) by (apply fits_true; lia).
    assert (G2 : fits (nb * bs) tl (length i) = true) by (apply fits_true; lia).
    assert (ET : forall ot', firstn tl (skipn (nb * bs) (concat Cs ++ ot')) = firstn tl ot').
    { intros ot'. rewrite <- Hol, skipn_app_exact by reflexivity. reflexivity. }
    assert (EI : firstn tl (skipn (nb * bs) i) = it).
    { subst i. rewrite <- Hci, skipn_app_exact by reflexivity. apply firstn_all2. lia. }
    destruct (Nat.eq_dec tl 0) as [Htl0|Htl0].
    - unfold bs in G1, G2.
      run_prefix 1.
      eexists _, _. split; [reflexivity|]. split; [reflexivity|]. rewrite Emodel.
      replace (Nat.eqb tl 0) with true by (symmetry; apply Nat.eqb_eq; exact Htl0). reflexivity.
    - assert (G3 : len_eq (length (firstn tl (skipn (nb * bs) (concat Cs ++ ot)))) 0 = false).
      { apply len_eq_false. rewrite ET, firstn_all2 by lia. lia. }
      unfold bs in G1, G2, G3.
      run_prefix 1.
      assert (Ecl : forall ot', cells_of bs al (firstn (nb * bs) (skipn 0 i)) (firstn (nb * bs) (skipn 0 (concat Cs ++ ot'))) = map2 (mkcell al) ib Cs).
      { intros ot'. subst i. cbn [skipn]. Transparent cells_of. unfold cells_of. Opaque cells_of.
        rewrite <- Hci at 1. rewrite <- Hol. rewrite !firstn_app_exact by reflexivity. rewrite !(chunks_blocks_only C) by auto. reflexivity. }
      assert (Erd : forall ot', map rd_out (cells_of bs al (firstn (nb * bs) (skipn 0 i)) (firstn (nb * bs) (skipn 0 (concat Cs ++ ot')))) = Cs).
      { intros ot'. rewrite Ecl. apply map_rd_out_mkcell. lia. }
      destruct (exists_last (l := Cs)) as (Cp & cl & ECp). { intros E0; rewrite E0 in HCl; cbn in HCl; lia. }
      assert (Hcp : length Cp = nb - 1) by (rewrite ECp, app_length in HCl; cbn in HCl; lia).
      assert (Hcl : length cl = bs) by (rewrite ECp in HCa; apply Forall_app in HCa; destruct HCa as [_ Hx]; inversion Hx; auto).
      assert (H1 : in_range 0 (length (map rd_out (cells_of bs al (firstn (nb * bs) (skipn 0 i)) (firstn (nb * bs) (skipn 0 (concat Cs ++ ot)))))) = true).
      { apply in_range_true. rewrite Erd. unfold block in *. lia. }
      unfold bs in H1.
      run_prefix 1. fold bs. rewrite Erd. rewrite HCl.
      replace (in_range 0 nb) with true by (symmetry; apply in_range_true; lia). cbv beta iota.
      run_prefix 2. fold bs. rewrite (ET ot), (firstn_all2 ot) by lia. rewrite <- Etl.
      run_prefix 1. fold bs. rewrite ?(ET ot), ?EI, ?(firstn_all2 ot) by lia. rewrite <- ?Etl.
      repeat ok_check. fold bs. rewrite ?(ET ot), ?EI, ?(firstn_all2 ot) by lia. rewrite <- ?Etl.
      remember (if al then ot else it) as tin eqn:Etin.
      assert (Htin : length tin = tl) by (subst tin; destruct al; lia).
      repeat ok_check.
      assert (Eblk : MirSem.splice 0 (tl - 0) tin (zeros bs) = tin ++ zeros (bs - tl)).
      { unfold MirSem.splice. cbn [firstn app Nat.add]. f_equal. unfold zeros. rewrite skipn_repeat_l. f_equal. lia. }
      rewrite Eblk.
      assert (Enth : nth (nb - 1) Cs [] = cl).
      { rewrite ECp, <- Hcp, app_nth2, Nat.sub_diag by lia. reflexivity. }
      run_prefix 1. fold bs. unfold block in *. rewrite ?Erd, ?Enth, ?HCl.
      assert (Emix : MirSem.splice tl (bs - tl) (firstn (bs - tl) (skipn tl cl)) (tin ++ zeros (bs - tl)) = mix tin cl).
      { unfold MirSem.splice, mix. rewrite <- Htin at 1. rewrite firstn_app_exact by reflexivity. f_equal.
        rewrite (skipn_all2 (tin ++ zeros (bs - tl))) by (rewrite app_length, zeros_length; lia). rewrite app_nil_r, Htin.
        apply firstn_all2. rewrite skipn_length. lia. }
      repeat first [ok_check | progress (rewrite ?Erd, ?Enth, ?HCl, ?Hcl, ?app_length, ?zeros_length, ?Htin)].
      replace (tl + (bs - tl) - tl) with (bs - tl) by lia. rewrite Emix.
      unfold bs. run_prefix 1. fold bs.
      match goal with |- context [VBlk (c_E C ?x)] => remember (c_E C x) as cb eqn:Ecb end.
      assert (Hcb : length cb = bs).
      { subst cb; apply E_len. unfold mix. rewrite app_length, skipn_length. lia. }
      unfold bs. run_prefix 1. fold bs. unfold block in *.
      repeat first [ok_check | progress (rewrite ?HL1, ?Hcb)].
      run_rest. fold bs. unfold block in *.
      repeat first [ok_check | progress (rewrite ?HL1, ?Hcb) | progress (rewrite ?msplice_length by (rewrite ?HL1, ?Hcb; nia))].
      eexists _, _. split; [reflexivity|]. split; [reflexivity|]. rewrite Emodel.
      replace (Nat.eqb tl 0) with false by (symmetry; apply Nat.eqb_neq; lia).
      unfold usub. replace (Nat.leb 1 nb) with true by (symmetry; apply Nat.leb_le; lia). cbn [obind].
      assert (Hcpl : length (concat Cp) = (nb - 1) * bs).
      { rewrite (all_len_concat_length bs). - unfold block in *; lia. - rewrite ECp in HCa. apply Forall_app in HCa. tauto. }
      assert (Ego : mget_out (mkmem al i (concat Cs ++ ot)) ((nb - 1) * bs) bs = Ok cl).
      { unfold mget_out, slice. cbn [m_out]. rewrite HL1.
        replace (Nat.leb ((nb - 1) * bs) ((nb - 1) * bs + bs)) with true by (symmetry; apply Nat.leb_le; lia).
        replace (Nat.leb ((nb - 1) * bs + bs) (nb * bs + tl)) with true by (symmetry; apply Nat.leb_le; nia). cbn [andb].
        replace ((nb - 1) * bs + bs - (nb - 1) * bs) with bs by lia.
        rewrite ECp, concat_app, <- app_assoc, <- Hcpl, skipn_app_exact by reflexivity. cbn [concat]. rewrite app_nil_r, <- Hcl, firstn_app_exact by reflexivity. reflexivity. }
      assert (Eg : mget_in (mkmem al i (concat Cs ++ ot)) (nb * bs) tl = Ok tin).
      { unfold mget_in, msrc, slice. cbn [m_al m_in m_out]. subst tin.
        replace (nb * bs + tl - nb * bs) with tl by lia.
        destruct al.
        - rewrite HL1. replace (Nat.leb (nb * bs) (nb * bs + tl)) with true by (symmetry; apply Nat.leb_le; lia).
          rewrite Nat.leb_refl. cbn [andb]. rewrite (ET ot), firstn_all2 by lia. reflexivity.
        - rewrite HLi. replace (Nat.leb (nb * bs) (nb * bs + tl)) with true by (symmetry; apply Nat.leb_le; lia).
          rewrite Nat.leb_refl. cbn [andb]. rewrite EI. reflexivity. }
      rewrite Ego. cbn [obind]. rewrite Eg. cbn [obind]. unfold mix. first [rewrite <- Ecb | rewrite Htin; rewrite <- Ecb].
      replace (Nat.leb bs (length o)) with true by (symmetry; apply Nat.leb_le; nia). cbn [obind].
      unfold mput_out. cbn [m_al m_in m_out]. rewrite HL1, Hcb, HLo.
      replace (Nat.leb (nb * bs + tl - bs + bs) (nb * bs + tl)) with true by (symmetry; apply Nat.leb_le; nia).
      do 2 f_equal. unfold splice, MirSem.splice. rewrite Hcb.
      replace (nb * bs + tl - (nb * bs + tl - bs)) with bs by nia. reflexivity.
  Qed.

  (* ---- C05 over the translated source: the bytes this closure body leaves in the buffer are the NIST SP 800-38A
     Addendum ciphertext of the message, buffer-to-buffer (any prior contents of the output buffer) and in place --
     the tie theorem above composed with Cts_cs_proofs.ecb_cs1_enc_ok (= Props/C05). *)
  Theorem C05_ecb_cs1_enc_source_b2b (blocks : list (list N)) (tail : list N) (ob : list (list N)) (ot : list N) :
    cipher_wf C -> all_len bs blocks -> 1 <= length blocks -> length tail < bs ->
    all_len bs ob -> length ob = length blocks -> length ot = length tail ->
    exists e', run_body X (eenv true false (concat blocks ++ tail) (concat ob ++ ot)) cts__ecb_cs1__BlockCipherEncClosure__Closure__call = Some (e', VUnit)
      /\ lookup "buf" e' = Some (VBuf false (concat blocks ++ tail) (ecb_cs1_spec bs (c_E C) blocks tail)).
  Proof.
    intros Cwf Hb Hn Ht Hob Hobl Hotl.
    destruct (tie_cts__ecb_cs1__BlockCipherEncClosure__Closure__call false blocks tail ob ot) as (e' & o' & Hrun & Hbuf & Hmod); auto; try lia.
    assert (Hm : msg_mem C (mkmem false (concat blocks ++ tail) (concat ob ++ ot)) blocks tail).
    { constructor; auto. split; [|discriminate]. cbn [m_in m_out]. rewrite !app_length, !(all_len_concat_length bs) by auto. lia. }
    destruct (ecb_cs1_enc_ok C Cwf _ blocks tail Hm) as (m' & E1 & E2).
    fold bs in E2. rewrite Hmod in E1. injection E1 as <-. cbn [m_out] in E2. subst o'.
    exists e'. split; [exact Hrun | exact Hbuf].
  Qed.

  Theorem C05_ecb_cs1_enc_source_inplace (blocks : list (list N)) (tail : list N) :
    cipher_wf C -> all_len bs blocks -> 1 <= length blocks -> length tail < bs ->
    exists e', run_body X (eenv true true (concat blocks ++ tail) (concat blocks ++ tail)) cts__ecb_cs1__BlockCipherEncClosure__Closure__call = Some (e', VUnit)
      /\ lookup "buf" e' = Some (VBuf true (concat blocks ++ tail) (ecb_cs1_spec bs (c_E C) blocks tail)).
  Proof.
    intros Cwf Hb Hn Ht.
    destruct (tie_cts__ecb_cs1__BlockCipherEncClosure__Closure__call true blocks tail blocks tail) as (e' & o' & Hrun & Hbuf & Hmod); auto; try lia.
    assert (Hm : msg_mem C (mkmem true (concat blocks ++ tail) (concat blocks ++ tail)) blocks tail).
    { constructor; auto. split; auto. }
    destruct (ecb_cs1_enc_ok C Cwf _ blocks tail Hm) as (m' & E1 & E2).
    fold bs in E2. rewrite Hmod in E1. injection E1 as <-. cbn [m_out] in E2. subst o'.
    exists e'. split; [exact Hrun | exact Hbuf].
  Qed.
End EcbCs1Enc.
