(* Tie_cts_helpers.v -- the bulk helpers of cts/src/lib.rs over an InOutBuf of blocks: `cbc_enc` (a plain loop), and
   `ecb_enc` / `ecb_dec` with their own chunking into groups of the backend's parallel width followed by a loop over
   the remaining blocks: for every number of blocks and every width they are the block-wise map (= the model's
   cts_ecb_enc / cts_ecb_dec / cts_cbc_enc).  The chunk size of `into_chunks()` is fixed by type inference in the
   source; the context supplies it ("into_chunks::N" = the parallel width), see MirSem.v. *)
From BM Require Import Tie.TieLib Cts.
From BMGen Require Import Src_cts.
Local Open Scope string_scope.
Local Open Scope list_scope.

(* cells processed one by one (or in groups) by a state-free map f: the first k are done *)
Definition done_upto (f : cell -> cell) (k : nat) (cs : list cell) : list cell := map f (firstn k cs) ++ skipn k cs.

Lemma done_upto_length f k cs : length (done_upto f k cs) = length cs.
Proof. unfold done_upto. rewrite app_length, map_length, firstn_length, skipn_length. lia. Qed.

Lemma done_upto_0 f cs : done_upto f 0 cs = cs.
Proof. reflexivity. Qed.

Lemma done_upto_all f cs : done_upto f (length cs) cs = map f cs.
Proof. unfold done_upto. now rewrite firstn_all, skipn_all, app_nil_r. Qed.

Lemma done_upto_read f k n cs : k <= length cs ->
  firstn n (skipn k (done_upto f k cs)) = firstn n (skipn k cs).
Proof. intros H. unfold done_upto. rewrite skipn_app_exact; [reflexivity|]. rewrite map_length, firstn_length. lia. Qed.

Lemma firstn_add {A} a b (l : list A) : firstn (a + b) l = firstn a l ++ firstn b (skipn a l).
Proof. revert l; induction a as [|a IH]; intros l; [reflexivity|]. destruct l as [|x l]; cbn [Nat.add firstn skipn app].
  - now rewrite firstn_nil.
  - now rewrite IH. Qed.

Lemma skipn_add {A} a b (l : list A) : skipn (a + b) l = skipn b (skipn a l).
Proof. revert l; induction a as [|a IH]; intros l; [reflexivity|]. destruct l as [|x l]; cbn [Nat.add skipn].
  - now rewrite skipn_nil.
  - apply IH. Qed.

Lemma done_upto_group f k w cs : k + w <= length cs ->
  csplice k w (map f (firstn w (skipn k cs))) (done_upto f k cs) = done_upto f (k + w) cs.
Proof.
  intros H. unfold csplice, done_upto.
  assert (Hl : length (map f (firstn k cs)) = k) by (rewrite map_length, firstn_length; lia).
  rewrite firstn_app_exact by lia.
  replace (k + w) with (length (map f (firstn k cs)) + w) at 1 by lia.
  rewrite skipn_app, (skipn_all2 (n := length (map f (firstn k cs)) + w)) by lia. cbn [app].
  replace (length (map f (firstn k cs)) + w - length (map f (firstn k cs))) with w by lia.
  rewrite firstn_add, map_app, <- app_assoc, skipn_add. reflexivity.
Qed.

Lemma upd_nth_mid' {A} (o rest : list A) c c' :
  upd_nth (length o) c' (o ++ c :: rest) = (o ++ [c']) ++ rest.
Proof. induction o as [|x o IH]; cbn [length app upd_nth]; [reflexivity|]. now rewrite IH. Qed.

Lemma done_upto_cell f k cs d : k < length cs ->
  upd_nth k (f (nth k cs d)) (done_upto f k cs) = done_upto f (S k) cs.
Proof.
  intros H. unfold done_upto.
  assert (Hl : length (map f (firstn k cs)) = k) by (rewrite map_length, firstn_length; lia).
  rewrite (skipn_nth_cons k d cs) by lia.
  rewrite <- Hl at 1. rewrite (upd_nth_mid' (map f (firstn k cs)) (skipn (S k) cs) (nth k cs d)).
  rewrite (firstn_S_nth k d cs), map_app by lia. reflexivity.
Qed.

Lemma done_upto_nth f k cs d : k < length cs -> nth k (done_upto f k cs) d = nth k cs d.
Proof. intros H. unfold done_upto. rewrite app_nth2; rewrite map_length, firstn_length; [|lia].
  replace (k - Nat.min k (length cs)) with 0 by lia. rewrite (skipn_nth_cons k d cs) by lia. reflexivity. Qed.

Lemma done_upto_split f k0 i cs : k0 + i <= length cs ->
  done_upto f (k0 + i) cs = map f (firstn k0 cs) ++ done_upto f i (skipn k0 cs).
Proof. intros H. unfold done_upto. rewrite firstn_add, map_app, <- app_assoc, skipn_add. reflexivity. Qed.

Lemma cseg_read (P Q : list cell) k0 r : k0 = length P -> r = length Q -> firstn r (skipn k0 (P ++ Q)) = Q.
Proof. intros -> ->. rewrite skipn_app_exact by reflexivity. apply firstn_all. Qed.

Lemma cseg_write (P Q X : list cell) k0 r : k0 = length P -> r = length Q -> csplice k0 r X (P ++ Q) = P ++ X.
Proof. intros -> ->. unfold csplice. rewrite firstn_app_exact by reflexivity.
  rewrite <- app_length, skipn_all. now rewrite app_nil_r. Qed.

Global Opaque done_upto.

Section CtsH.
  Variable C : cipher.
  Let bs := c_bs C.
  Let w := c_w C.
  Hypothesis w_pos : 0 < w.
  Let X := bctx C [("xor", FSem xor_sem)] [("B::ParBlocksSize::USIZE", VNat w); ("into_chunks::N", VNat w)].

  (* a left-to-right loop over the cells with a state: what is done after k cells *)
  Lemma fold_cells_snoc {S} (f : S -> cell -> S * cell) st l c :
    fold_cells f st (l ++ [c]) =
    let '(st1, o) := fold_cells f st l in let '(st2, c') := f st1 c in (st2, o ++ [c']).
  Proof. rewrite fold_cells_app. destruct (fold_cells f st l) as [st1 o]. cbn [fold_cells].
    destruct (f st1 c) as [st2 c']. reflexivity. Qed.

  Lemma upd_nth_mid {A} (o rest : list A) c c' k : k = length o ->
    upd_nth k c' (o ++ c :: rest) = (o ++ [c']) ++ rest.
  Proof. intros ->. induction o as [|x o IH]; cbn [length app upd_nth]; [reflexivity|]. now rewrite IH. Qed.

  Lemma nth_mid {A} (o rest : list A) c d k : k = length o -> nth k (o ++ c :: rest) d = c.
  Proof. intros ->. rewrite app_nth2, Nat.sub_diag by lia. reflexivity. Qed.

  (* cbc_enc: a plain loop over the blocks *)
  Lemma tie_cts_cbc_enc iv cs :
    Forall (fun c => length (rd_in c) = length iv) cs -> (forall x, length x = length iv -> length (c_E C x) = length iv) ->
    call_fn X cts__lib__cbc_enc [VCipher true false; VBlk iv; VCells cs]
    = let '(iv', cs') := cts_cbc_enc C iv cs in Some (VUnit, [VCipher true false; VBlk iv'; VCells cs']).
  Proof.
    intros Hcs HE. unfold call_fn, call_src.
    eval_frame. run_rest.
    match goal with |- context [for_each (seq ?a0 ?m) ?body ?e0] =>
      destruct (for_each_seq_inv
        (fun k e => length (fst (fold_cells (cts_cbc_enc_block C) iv (firstn k cs))) = length iv /\
                    e = [("blocks", VRef (PVar "$a2"));
                         ("$a2", VCells (snd (fold_cells (cts_cbc_enc_block C) iv (firstn k cs)) ++ skipn k cs));
                         ("iv", VRef (PVar "$a1")); ("$a1", VBlk (fst (fold_cells (cts_cbc_enc_block C) iv (firstn k cs))));
                         ("cipher", VRef (PVar "$a0")); ("$a0", VCipher true false)])
        body a0 m e0) as (e' & He & HP)
    end.
    - split; reflexivity.
    - intros k e Hk [Hlen ->]. cbn [loopN].
      assert (Hol : length (snd (fold_cells (cts_cbc_enc_block C) iv (firstn k cs))) = k).
      { rewrite fold_cells_length, firstn_length. lia. }
      rewrite (firstn_S_nth k dummy_cell cs) by lia. rewrite fold_cells_snoc.
      destruct (fold_cells (cts_cbc_enc_block C) iv (firstn k cs)) as [ivk ok] eqn:Ek. cbn [fst snd] in *.
      rewrite (skipn_nth_cons k dummy_cell cs) by lia.
      remember (nth k cs dummy_cell) as c eqn:Ec.
      assert (Hc : length (rd_in c) = length iv).
      { subst c. eapply Forall_forall in Hcs; [exact Hcs|]. apply nth_In. lia. }
      assert (F1 : in_range k (length (ok ++ c :: skipn (S k) cs)) = true)
        by (apply in_range_true; rewrite app_length; cbn [length]; lia).
      ev_checks. do 2 eexists; split; [reflexivity|].
      change {| alias := false; cin := []; cout := [] |} with dummy_cell.
      rewrite !(nth_mid ok (skipn (S k) cs) c dummy_cell k) by lia.
      rewrite (upd_nth_mid ok (skipn (S k) cs) c) by lia.
      rewrite xor_into_eq by lia.
      split; [apply HE; rewrite xorb_length_eq; lia | reflexivity].
    - destruct HP as [_ HP]. rewrite He, HP. clear He HP. cbv beta iota. rewrite Nat.add_0_l, firstn_all, skipn_all, app_nil_r.
      unfold cts_cbc_enc. destruct (fold_cells (cts_cbc_enc_block C) iv cs) as [iv' cs']. cbn [fst snd]. evf_l. reflexivity.
  Qed.
End CtsH.

Section Ecb.
  Variable C : cipher.
  Let w := c_w C.
  Let X := bctx C [("xor", FSem xor_sem)] [("B::ParBlocksSize::USIZE", VNat w); ("into_chunks::N", VNat w)].
  Definition enc1 (c : cell) : cell := wr_out c (c_E C (rd_in c)).
  Lemma map2_enc1 g : map2 wr_out g (map (c_E C) (map rd_in g)) = map enc1 g.
  Proof. induction g as [|c g IH]; [reflexivity|]. cbn [map map2]. now rewrite IH. Qed.
  Opaque enc1.

  (* parallel width 1: the chunking branch is skipped, one loop over all blocks *)
  Lemma tie_cts_ecb_enc_w1 cs : w = 1 ->
    call_fn X cts__lib__ecb_enc [VCipher true false; VCells cs] = Some (VUnit, [VCipher true false; VCells (map enc1 cs)]).
  Proof.
    intros Hw. unfold call_fn, call_src.
    assert (F1 : in_range 1 (c_w C) = false) by (apply in_range_false; fold w; lia).
    eval_frame. run_prefix 1. run_rest.
    match goal with |- context [for_each (seq ?a0 ?m) ?body ?e0] =>
      destruct (for_each_seq_inv
        (fun k e => e = [("blocks", VRef (PVar "$a1")); ("$a1", VCells (done_upto enc1 k cs));
                         ("cipher", VRef (PVar "$a0")); ("$a0", VCipher true false)])
        body a0 m e0) as (e' & He & HP)
    end.
    - reflexivity.
    - intros k e Hk ->. cbn [loopN].
      assert (Hl := done_upto_length enc1 k cs).
      assert (F2 : in_range k (length (done_upto enc1 k cs)) = true) by (apply in_range_true; lia).
      ev_checks. do 2 eexists; split; [reflexivity|].
      change {| alias := false; cin := []; cout := [] |} with dummy_cell.
      rewrite !done_upto_nth by lia.
      change (wr_out (nth k cs dummy_cell) (c_E C (rd_in (nth k cs dummy_cell)))) with (enc1 (nth k cs dummy_cell)).
      rewrite done_upto_cell by lia. reflexivity.
    - rewrite He, HP. clear He HP. cbv beta iota. rewrite Nat.add_0_l, done_upto_all. evf_l. reflexivity.
  Qed.

  Lemma tie_cts_ecb_enc_par cs : 1 < w ->
    call_fn X cts__lib__ecb_enc [VCipher true false; VCells cs] = Some (VUnit, [VCipher true false; VCells (map enc1 cs)]).
  Proof.
    intros Hw. unfold call_fn, call_src.
    assert (F1 : in_range 1 (c_w C) = true) by (apply in_range_true; fold w; lia).
    assert (F0 : in_range 0 (c_w C) = true) by (apply in_range_true; fold w; lia).
    eval_frame. run_prefix 1.
    remember (ndiv (length cs) (c_w C)) as n eqn:En.
    assert (Hnw : n * c_w C <= length cs).
    { subst n. unfold ndiv. rewrite Nat.mul_comm. apply Nat.mul_div_le. fold w. lia. }
    match goal with |- context [for_each (seq ?a0 ?m) ?body ?e0] =>
      match e0 with context [("rem_blocks", ?rv)] => match e0 with context [("par_blocks", ?pv)] =>
      destruct (for_each_seq_inv
        (fun j e => e = [("rem_blocks", rv); ("par_blocks", pv); ("blocks", rv);
                         ("$a1", VCells (done_upto enc1 (j * c_w C) cs)); ("cipher", VRef (PVar "$a0")); ("$a0", VCipher true false)])
        body a0 m e0) as (e' & He & HP)
      end end
    end.
    - reflexivity.
    - intros j e Hj ->. cbn [loopN].
      assert (Hl := done_upto_length enc1 (j * c_w C) cs).
      assert (Hjw : j * c_w C + c_w C <= length cs) by nia.
      assert (F2 : fits (j * c_w C) (c_w C) (length (done_upto enc1 (j * c_w C) cs)) = true)
        by (apply fits_true; lia).
      ev_checks. do 2 eexists; split; [reflexivity|].
      rewrite map2_enc1.
      try (match goal with |- context [firstn ?a ?l ++ ?s ++ skipn (?a + ?b) ?l] =>
        change (firstn a l ++ s ++ skipn (a + b) l) with (csplice a b s l) end).
      rewrite done_upto_read by lia. rewrite done_upto_group by lia.
      replace (S j * c_w C) with (j * c_w C + c_w C) by lia. reflexivity.
    - rewrite He, HP. clear He HP. cbv beta iota. rewrite Nat.add_0_l.
      remember (n * c_w C) as k0 eqn:Ek0. remember (length cs - k0) as r eqn:Er.
      remember (map enc1 (firstn k0 cs)) as P eqn:EP.
      assert (HP : length P = k0) by (subst P; rewrite map_length, firstn_length; lia).
      remember (skipn k0 cs) as T eqn:ET.
      assert (HT : length T = r) by (subst T; rewrite skipn_length; lia).
      assert (Hsplit : forall i, i <= r -> done_upto enc1 (k0 + i) cs = P ++ done_upto enc1 i T)
        by (intros i Hi; subst P T; apply done_upto_split; lia).
      replace (done_upto enc1 k0 cs) with (P ++ done_upto enc1 0 T)
        by (rewrite <- (Hsplit 0) by lia; now rewrite Nat.add_0_r).
      assert (F2 : forall i, fits k0 r (length (P ++ done_upto enc1 i T)) = true)
        by (intros i; apply fits_true; rewrite app_length, done_upto_length; lia).
      pose proof (F2 0) as F20.
      run_rest. rewrite (cseg_read P (done_upto enc1 0 T)) by (rewrite ?done_upto_length; lia). rewrite done_upto_length.
      match goal with |- context [for_each (seq ?a0 ?m) ?body ?e0] =>
        match e0 with context [("blocks", ?bv)] =>
        destruct (for_each_seq_inv
          (fun i e => e = [("blocks", bv); ("$a1", VCells (P ++ done_upto enc1 i T)); ("cipher", VRef (PVar "$a0")); ("$a0", VCipher true false)])
          body a0 m e0) as (e'' & He & HP')
        end
      end.
      + reflexivity.
      + intros i e Hi ->. cbn [loopN]. rewrite HT in Hi.
        pose proof (F2 i) as F2i.
        assert (Er1 : firstn r (skipn k0 (P ++ done_upto enc1 i T)) = done_upto enc1 i T)
          by (apply cseg_read; rewrite ?done_upto_length; lia).
        assert (F3 : in_range i (length (firstn r (skipn k0 (P ++ done_upto enc1 i T)))) = true)
          by (apply in_range_true; rewrite Er1, done_upto_length; lia).
        assert (F4 : len_eq (length (upd_nth i (wr_out (nth i (firstn r (skipn k0 (P ++ done_upto enc1 i T))) dummy_cell)
                                          (c_E C (rd_in (nth i (firstn r (skipn k0 (P ++ done_upto enc1 i T))) dummy_cell))))
                                      (firstn r (skipn k0 (P ++ done_upto enc1 i T))))) r = true)
          by (apply len_eq_true; rewrite upd_nth_length, Er1, done_upto_length; lia).
        unfold dummy_cell in F4.
        ev_checks. do 2 eexists; split; [reflexivity|].
        change {| alias := false; cin := []; cout := [] |} with dummy_cell.
        try (match goal with |- context [firstn ?a ?l ++ ?s ++ skipn (?a + ?b) ?l] =>
          change (firstn a l ++ s ++ skipn (a + b) l) with (csplice a b s l) end).
        rewrite !Er1. rewrite !done_upto_nth by lia.
        change (wr_out (nth i T dummy_cell) (c_E C (rd_in (nth i T dummy_cell)))) with (enc1 (nth i T dummy_cell)).
        rewrite done_upto_cell by lia.
        rewrite (cseg_write P (done_upto enc1 i T)) by (rewrite ?done_upto_length; lia). reflexivity.
      + rewrite He, HP'. clear He HP'. cbv beta iota. rewrite Nat.add_0_l.
        rewrite <- HT, done_upto_all. evf_l.
        subst P T. rewrite <- map_app, firstn_skipn. reflexivity.
  Qed.
End Ecb.

Section EcbDec.
  Variable C : cipher.
  Let w := c_w C.
  Let X := bctx C [("xor", FSem xor_sem)] [("B::ParBlocksSize::USIZE", VNat w); ("into_chunks::N", VNat w)].
  Definition dec1 (c : cell) : cell := wr_out c (c_D C (rd_in c)).
  Lemma map2_dec1 g : map2 wr_out g (map (c_D C) (map rd_in g)) = map dec1 g.
  Proof. induction g as [|c g IH]; [reflexivity|]. cbn [map map2]. now rewrite IH. Qed.
  Opaque dec1.

  (* parallel width 1: the chunking branch is skipped, one loop over all blocks *)
  Lemma tie_cts_ecb_dec_w1 cs : w = 1 ->
    call_fn X cts__lib__ecb_dec [VCipher false true; VCells cs] = Some (VUnit, [VCipher false true; VCells (map dec1 cs)]).
  Proof.
    intros Hw. unfold call_fn, call_src.
    assert (F1 : in_range 1 (c_w C) = false) by (apply in_range_false; fold w; lia).
    eval_frame. run_prefix 1. run_rest.
    match goal with |- context [for_each (seq ?a0 ?m) ?body ?e0] =>
      destruct (for_each_seq_inv
        (fun k e => e = [("blocks", VRef (PVar "$a1")); ("$a1", VCells (done_upto dec1 k cs));
                         ("cipher", VRef (PVar "$a0")); ("$a0", VCipher false true)])
        body a0 m e0) as (e' & He & HP)
    end.
    - reflexivity.
    - intros k e Hk ->. cbn [loopN].
      assert (Hl := done_upto_length dec1 k cs).
      assert (F2 : in_range k (length (done_upto dec1 k cs)) = true) by (apply in_range_true; lia).
      ev_checks. do 2 eexists; split; [reflexivity|].
      change {| alias := false; cin := []; cout := [] |} with dummy_cell.
      rewrite !done_upto_nth by lia.
      change (wr_out (nth k cs dummy_cell) (c_D C (rd_in (nth k cs dummy_cell)))) with (dec1 (nth k cs dummy_cell)).
      rewrite done_upto_cell by lia. reflexivity.
    - rewrite He, HP. clear He HP. cbv beta iota. rewrite Nat.add_0_l, done_upto_all. evf_l. reflexivity.
  Qed.

  Lemma tie_cts_ecb_dec_par cs : 1 < w ->
    call_fn X cts__lib__ecb_dec [VCipher false true; VCells cs] = Some (VUnit, [VCipher false true; VCells (map dec1 cs)]).
  Proof.
    intros Hw. unfold call_fn, call_src.
    assert (F1 : in_range 1 (c_w C) = true) by (apply in_range_true; fold w; lia).
    assert (F0 : in_range 0 (c_w C) = true) by (apply in_range_true; fold w; lia).
    eval_frame. run_prefix 1.
    remember (ndiv (length cs) (c_w C)) as n eqn:En.
    assert (Hnw : n * c_w C <= length cs).
    { subst n. unfold ndiv. rewrite Nat.mul_comm. apply Nat.mul_div_le. fold w. lia. }
    match goal with |- context [for_each (seq ?a0 ?m) ?body ?e0] =>
      match e0 with context [("rem_blocks", ?rv)] => match e0 with context [("par_blocks", ?pv)] =>
      destruct (for_each_seq_inv
        (fun j e => e = [("rem_blocks", rv); ("par_blocks", pv); ("blocks", rv);
                         ("$a1", VCells (done_upto dec1 (j * c_w C) cs)); ("cipher", VRef (PVar "$a0")); ("$a0", VCipher false true)])
        body a0 m e0) as (e' & He & HP)
      end end
    end.
    - reflexivity.
    - intros j e Hj ->. cbn [loopN].
      assert (Hl := done_upto_length dec1 (j * c_w C) cs).
      assert (Hjw : j * c_w C + c_w C <= length cs) by nia.
      assert (F2 : fits (j * c_w C) (c_w C) (length (done_upto dec1 (j * c_w C) cs)) = true)
        by (apply fits_true; lia).
      ev_checks. do 2 eexists; split; [reflexivity|].
      rewrite map2_dec1.
      try (match goal with |- context [firstn ?a ?l ++ ?s ++ skipn (?a + ?b) ?l] =>
        change (firstn a l ++ s ++ skipn (a + b) l) with (csplice a b s l) end).
      rewrite done_upto_read by lia. rewrite done_upto_group by lia.
      replace (S j * c_w C) with (j * c_w C + c_w C) by lia. reflexivity.
    - rewrite He, HP. clear He HP. cbv beta iota. rewrite Nat.add_0_l.
      remember (n * c_w C) as k0 eqn:Ek0. remember (length cs - k0) as r eqn:Er.
      remember (map dec1 (firstn k0 cs)) as P eqn:EP.
      assert (HP : length P = k0) by (subst P; rewrite map_length, firstn_length; lia).
      remember (skipn k0 cs) as T eqn:ET.
      assert (HT : length T = r) by (subst T; rewrite skipn_length; lia).
      assert (Hsplit : forall i, i <= r -> done_upto dec1 (k0 + i) cs = P ++ done_upto dec1 i T)
        by (intros i Hi; subst P T; apply done_upto_split; lia).
      replace (done_upto dec1 k0 cs) with (P ++ done_upto dec1 0 T)
        by (rewrite <- (Hsplit 0) by lia; now rewrite Nat.add_0_r).
      assert (F2 : forall i, fits k0 r (length (P ++ done_upto dec1 i T)) = true)
        by (intros i; apply fits_true; rewrite app_length, done_upto_length; lia).
      pose proof (F2 0) as F20.
      run_rest. rewrite (cseg_read P (done_upto dec1 0 T)) by (rewrite ?done_upto_length; lia). rewrite done_upto_length.
      match goal with |- context [for_each (seq ?a0 ?m) ?body ?e0] =>
        match e0 with context [("blocks", ?bv)] =>
        destruct (for_each_seq_inv
          (fun i e => e = [("blocks", bv); ("$a1", VCells (P ++ done_upto dec1 i T)); ("cipher", VRef (PVar "$a0")); ("$a0", VCipher false true)])
          body a0 m e0) as (e'' & He & HP')
        end
      end.
      + reflexivity.
      + intros i e Hi ->. cbn [loopN]. rewrite HT in Hi.
        pose proof (F2 i) as F2i.
        assert (Er1 : firstn r (skipn k0 (P ++ done_upto dec1 i T)) = done_upto dec1 i T)
          by (apply cseg_read; rewrite ?done_upto_length; lia).
        assert (F3 : in_range i (length (firstn r (skipn k0 (P ++ done_upto dec1 i T)))) = true)
          by (apply in_range_true; rewrite Er1, done_upto_length; lia).
        assert (F4 : len_eq (length (upd_nth i (wr_out (nth i (firstn r (skipn k0 (P ++ done_upto dec1 i T))) dummy_cell)
                                          (c_D C (rd_in (nth i (firstn r (skipn k0 (P ++ done_upto dec1 i T))) dummy_cell))))
                                      (firstn r (skipn k0 (P ++ done_upto dec1 i T))))) r = true)
          by (apply len_eq_true; rewrite upd_nth_length, Er1, done_upto_length; lia).
        unfold dummy_cell in F4.
        ev_checks. do 2 eexists; split; [reflexivity|].
        change {| alias := false; cin := []; cout := [] |} with dummy_cell.
        try (match goal with |- context [firstn ?a ?l ++ ?s ++ skipn (?a + ?b) ?l] =>
          change (firstn a l ++ s ++ skipn (a + b) l) with (csplice a b s l) end).
        rewrite !Er1. rewrite !done_upto_nth by lia.
        change (wr_out (nth i T dummy_cell) (c_D C (rd_in (nth i T dummy_cell)))) with (dec1 (nth i T dummy_cell)).
        rewrite done_upto_cell by lia.
        rewrite (cseg_write P (done_upto dec1 i T)) by (rewrite ?done_upto_length; lia). reflexivity.
      + rewrite He, HP'. clear He HP'. cbv beta iota. rewrite Nat.add_0_l.
        rewrite <- HT, done_upto_all. evf_l.
        subst P T. rewrite <- map_app, firstn_skipn. reflexivity.
  Qed.
End EcbDec.

(* the model's helpers (blocks_ctx over the model's single / parallel bodies) are the same block-wise maps *)
Transparent enc1 dec1.
Lemma fold_ecb_e C ch : fold_cells (ecb_e_block C) tt ch = (tt, map (enc1 C) ch).
Proof. induction ch as [|c ch IH]; [reflexivity|]. cbn [fold_cells map]. unfold ecb_e_block at 1. now rewrite IH. Qed.
Lemma fold_ecb_d C ch : fold_cells (ecb_d_block C) tt ch = (tt, map (dec1 C) ch).
Proof. induction ch as [|c ch IH]; [reflexivity|]. cbn [fold_cells map]. unfold ecb_d_block at 1. now rewrite IH. Qed.

Lemma cts_ecb_enc_map C cs : 0 < c_w C -> cts_ecb_enc C tt cs = (tt, map (enc1 C) cs).
Proof.
  intros Hw. unfold cts_ecb_enc. rewrite blocks_ctx_fold; [apply fold_ecb_e|].
  intros [] ch _. rewrite fold_ecb_e. unfold ecb_e_par. now rewrite map2_enc1.
Qed.
Lemma cts_ecb_dec_map C cs : 0 < c_w C -> cts_ecb_dec C tt cs = (tt, map (dec1 C) cs).
Proof.
  intros Hw. unfold cts_ecb_dec. rewrite blocks_ctx_fold; [apply fold_ecb_d|].
  intros [] ch _. rewrite fold_ecb_d. unfold ecb_d_par. now rewrite map2_dec1.
Qed.
