(* Tie_cfb_mode_bufdec.v -- the buffered CFB decryptor of cfb-mode/src/decrypt.rs (`BufDecryptor::decrypt`) computes
   [buf_apply false] of Plumbing.v (xor_set2: the feedback register takes the incoming ciphertext). *)
From BM Require Import Tie.TieLib.
From BMGen Require Import Src_cfb_mode.
Local Open Scope string_scope.
Local Open Scope list_scope.
From BM Require Import Plumbing.

Section Buf.
  Variable C : cipher.
  Let bs := c_bs C.
  Hypothesis bs_pos : 0 < bs.
  Hypothesis E_len : forall x, length x = bs -> length (c_E C x) = bs.
  Let X := bctx C [("xor_set1", FSem set1_sem); ("xor_set2", FSem set2_sem)] [("C::BlockSize::USIZE", VNat bs)].
  Definition buf_self (iv : block) (pos : nat) : val :=
    VStruct "BufDecryptor" [("cipher", VCipher true false); ("iv", VBlk iv); ("pos", VNat pos)].


  Lemma all_len_firstn {A} n k (l : list (list A)) : all_len n l -> all_len n (firstn k l).
  Proof. intros H. revert k. induction H as [|x l Hx _ IH]; intros [|k]; cbn [firstn]; try constructor; auto. apply IH. Qed.

  Lemma all_len_skipn {A} n k (l : list (list A)) : all_len n l -> all_len n (skipn k l).
  Proof. intros H. revert k. induction H as [|x l Hx Hl IH]; intros [|k]; cbn [skipn]; try constructor; auto. Qed.

  Lemma all_len_concat {A} n (l : list (list A)) : all_len n l -> length (concat l) = n * length l.
  Proof. intros H. induction H as [|c l Hc _ IH]; simpl; [lia|]. rewrite app_length, Hc, IH. lia. Qed.

  Lemma buf_chunks_snoc s1 iv0 l ch :
    buf_chunks C s1 iv0 (l ++ [ch]) =
    let '(iv', o) := buf_chunks C s1 iv0 l in let t := xorb ch iv' in (c_E C (if s1 then t else ch), o ++ t).
  Proof.
    revert iv0. induction l as [|c l IH]; intros iv0.
    - cbn [app buf_chunks]. now rewrite app_nil_r.
    - cbn [app buf_chunks]. rewrite IH. destruct (buf_chunks C s1 _ l) as [iv2 o]. cbv zeta. now rewrite <- app_assoc.
  Qed.

  Lemma buf_chunks_lens s1 l : forall iv0, length iv0 = bs -> all_len bs l ->
    length (fst (buf_chunks C s1 iv0 l)) = bs /\ length (snd (buf_chunks C s1 iv0 l)) = bs * length l.
  Proof.
    induction l as [|c l IH]; intros iv0 Hi Ha.
    - cbn. split; [auto|lia].
    - inversion Ha as [|? ? Hc Hl]; subst. cbn [buf_chunks].
      assert (Ht : length (xorb c iv0) = bs) by (rewrite xorb_length_eq; lia).
      specialize (IH (c_E C (if s1 then xorb c iv0 else c)) ltac:(destruct s1; apply E_len; auto) Hl).
      destruct (buf_chunks C s1 _ l) as [iv2 o]. cbn [fst snd] in *. destruct IH as [I1 I2].
      split; auto. rewrite app_length, Ht, I2. cbn [length]. lia.
  Qed.
  Lemma tie_buf_decrypt_short iv pos data : length iv = bs -> pos < bs -> length data < bs - pos ->
    call_fn X cfb_mode__decrypt_____BufDecryptor__decrypt [buf_self iv pos; VBlk data]
    = match buf_apply C false (iv, pos) data with
      | Ok ((iv', pos'), out) => Some (VUnit, [buf_self iv' pos'; VBlk out])
      | _ => None
      end.
  Proof.
    intros Hiv Hpos Hn.
    assert (F1 : in_range (length data) (c_bs C - pos) = true) by (apply in_range_true; fold bs; lia).
    unfold call_fn, call_src.
    eval_frame. run_prefix 2. run_prefix 1. evf_l.
    unfold buf_apply, usub, slice. fold bs.
    replace (Nat.leb pos bs) with true by (symmetry; apply Nat.leb_le; lia). cbn [obind].
    replace (Nat.ltb (length data) (bs - pos)) with true by (symmetry; apply Nat.ltb_lt; lia).
    replace (Nat.leb pos (pos + length data) && Nat.leb (pos + length data) (length iv))%bool with true
      by (symmetry; apply andb_true_iff; split; apply Nat.leb_le; lia).
    cbn [obind].
    set (ks := firstn (pos + length data - pos) (skipn pos iv)).
    assert (Hks : length ks = length data) by (unfold ks; rewrite firstn_length, skipn_length; lia).
    rewrite !xor_into_eq by lia.
    rewrite Hks, Nat.min_id, firstn_all, <- Hks, skipn_all, app_nil_r, Hks.
    unfold MirSem.splice, Outcome.splice.
    replace (pos + length data - pos) with (length data) by lia. reflexivity.
  Qed.


  Lemma tie_buf_decrypt_long iv pos left chs rem :
    length iv = bs -> pos < bs -> length left = bs - pos -> all_len bs chs -> length rem < bs ->
    let data := left ++ concat chs ++ rem in
    call_fn X cfb_mode__decrypt_____BufDecryptor__decrypt [buf_self iv pos; VBlk data]
    = match buf_apply C false (iv, pos) data with
      | Ok ((iv', pos'), out) => Some (VUnit, [buf_self iv' pos'; VBlk out])
      | _ => None
      end.
  Proof.
    intros Hiv Hpos Hleft Hall Hrem data.
    assert (Hcc : length (concat chs) = bs * length chs).
    { clear -Hall. induction Hall as [|c l Hc _ IH]; simpl; [lia|]. rewrite app_length, Hc, IH. lia. }
    remember (concat chs ++ rem) as R eqn:ER.
    assert (HR : length R = bs * length chs + length rem) by (subst R; rewrite app_length; lia).
    assert (F1 : in_range (length (left ++ R)) (c_bs C - pos) = false)
      by (apply in_range_false; fold bs; rewrite app_length; lia).
    unfold data, call_fn, call_src. clear data.
    eval_frame. run_prefix 2. run_prefix 1.
    run_prefix 1. run_prefix 1. run_prefix 1. run_prefix 1. run_prefix 1.
    (* tidy: the first (partial) block *)
    remember (skipn pos iv) as ks eqn:Eks. remember (xorb left ks) as tl eqn:Etl.
    assert (Hks : length ks = bs - pos) by (subst ks; rewrite skipn_length; lia).
    assert (Htl : length tl = bs - pos) by (subst tl; rewrite xorb_length_eq; lia).
    fold bs.
    rewrite !(seg_read_head left R) by (fold bs; lia).
    rewrite <- ?Eks. rewrite !(firstn_all2 (n := length iv - pos)) by lia.
    rewrite !(xor_into_eq left ks) by lia. rewrite <- ?Etl.
    replace (firstn (Nat.min (length left) (length ks)) left ++ skipn (Nat.min (length left) (length ks)) ks) with left
      by (rewrite Hks, Hleft, Nat.min_id, <- Hleft, firstn_all, Hleft, <- Hks, skipn_all, app_nil_r; reflexivity).
    rewrite !(seg_write_head left R) by (fold bs; lia).
    replace (length (left ++ R) - (bs - pos)) with (length R) by (rewrite app_length; lia).
    assert (Hdiv : ndiv (length R) bs = length chs).
    { unfold ndiv. rewrite HR. symmetry. apply (Nat.div_unique _ _ _ (length rem)); lia. }
    run_prefix 1. fold bs. rewrite !(seg_read_tail tl R) by lia. rewrite Hdiv.
    remember (c_E C (MirSem.splice pos (length iv - pos) left iv)) as iv1 eqn:Eiv1.
    assert (Hiv1 : length iv1 = bs).
    { subst iv1. apply E_len. unfold MirSem.splice. rewrite !app_length, firstn_length, skipn_length. lia. }
    run_prefix 1. fold bs.
    match goal with |- context [for_each (seq ?a0 ?m) ?body ?e0] =>
      match e0 with context [("chunks", ?cv)] => match e0 with context [("right", ?rv)] =>
      match e0 with context [("left", ?lv)] => match e0 with context [("n", ?nv)] => match e0 with context [("data", ?dv)] =>
      destruct (for_each_seq_inv
        (fun k e => e = [("chunks", cv); ("iv", VBlk (fst (buf_chunks C false iv1 (firstn k chs)))); ("right", rv); ("left", lv);
                         ("n", nv); ("bs", VNat bs); ("data", dv);
                         ("$a1", VBlk (tl ++ snd (buf_chunks C false iv1 (firstn k chs)) ++ concat (skipn k chs) ++ rem));
                         ("self", VRef (PVar "$a0")); ("$a0", buf_self iv pos)])
        body a0 m e0) as (e' & He & HP)
      end end end end end
    end.
    - cbn [firstn buf_chunks fst snd skipn app]. rewrite ER. reflexivity.
    - intros k e Hk ->. cbn [loopN].
      destruct (buf_chunks_lens false (firstn k chs) iv1 Hiv1) as [Hl1 Hl2].
      { now apply all_len_firstn. }
      rewrite firstn_length in Hl2. replace (Nat.min k (length chs)) with k in Hl2 by lia.
      destruct (buf_chunks C false iv1 (firstn k chs)) as [ivk ok] eqn:Ek. cbn [fst snd] in *.
      remember (nth k chs []) as ch eqn:Ech.
      assert (Hch : length ch = bs).
      { subst ch. eapply Forall_forall in Hall; [exact Hall|]. apply nth_In. lia. }
      rewrite (skipn_nth_cons k [] chs) by lia. rewrite <- Ech. cbn [concat].
      rewrite (firstn_S_nth k [] chs) by lia. rewrite <- Ech. rewrite buf_chunks_snoc, Ek. cbn [fst snd].
      remember (concat (skipn (S k) chs)) as Bc eqn:EBc.
      assert (HBc : length Bc = bs * (length chs - S k)).
      { subst Bc. rewrite (all_len_concat bs) by (now apply all_len_skipn). rewrite skipn_length. reflexivity. }
      rewrite <- !app_assoc.
      assert (Hq : length (ok ++ ch ++ Bc ++ rem) = length R) by (rewrite !app_length; nia).
      assert (Hkb : k * bs = length ok) by lia.
      fold bs in F1.
      pose (A1 := tl ++ ok ++ ch ++ Bc ++ rem).
      pose (b0 := firstn (length R) (skipn (bs - pos) A1)).
      pose (c0 := firstn bs (skipn (k * bs) b0)).
      pose (s0 := xor_into c0 ivk).
      pose (b1 := MirSem.splice (k * bs) bs s0 b0).
      assert (Eb0 : b0 = ok ++ ch ++ Bc ++ rem) by (unfold b0, A1; apply seg_read_tail; lia).
      assert (Ec0 : c0 = ch) by (unfold c0; rewrite Eb0; apply seg_read; lia).
      assert (Es0 : s0 = xorb ch ivk) by (unfold s0; rewrite Ec0; apply xor_into_eq; lia).
      assert (Eb1 : b1 = ok ++ xorb ch ivk ++ Bc ++ rem) by (unfold b1; rewrite Es0, Eb0; apply seg_write; lia).
      assert (F2 : fits (bs - pos) (length R) (length A1) = true)
        by (apply fits_true; unfold A1; rewrite app_length, Hq; lia).
      assert (F3 : fits (k * bs) bs (length b0) = true)
        by (apply fits_true; rewrite Eb0, Hq; nia).
      assert (F4 : len_eq (length s0) bs = true)
        by (apply len_eq_true; rewrite Es0, xorb_length_eq; lia).
      assert (F5 : len_eq (length b1) (length R) = true)
        by (apply len_eq_true; rewrite Eb1, <- Hq, !app_length, xorb_length_eq; lia).
      unfold b1, s0, c0, b0, A1 in F2, F3, F4, F5. unfold bs in F2, F3, F4, F5.
      ev_checks. do 2 eexists; split; [reflexivity|].
      fold bs.
      rewrite !(seg_read_tail tl (ok ++ ch ++ Bc ++ rem)) by lia.
      rewrite !(seg_read ok ch (Bc ++ rem)) by lia.
      rewrite (xor_into_eq ch ivk) by lia.
      replace (firstn (Nat.min (length ch) (length ivk)) ch ++ skipn (Nat.min (length ch) (length ivk)) ivk) with ch
        by (rewrite Hch, Hl1, Nat.min_id, <- Hch, firstn_all, Hch, <- Hl1, skipn_all, app_nil_r; reflexivity).
      rewrite (seg_write ok ch (Bc ++ rem)) by lia.
      rewrite (seg_write_tail tl (ok ++ ch ++ Bc ++ rem)) by lia.
      rewrite <- ?app_assoc. reflexivity.
    - rewrite He, HP. clear He HP. cbv beta iota. rewrite Nat.add_0_l.
      rewrite firstn_all, skipn_all. cbn [concat app].
      destruct (buf_chunks_lens false chs iv1 Hiv1 Hall) as [Hl1 Hl2].
      destruct (buf_chunks C false iv1 chs) as [iv2 o] eqn:Ek. cbn [fst snd] in *.
      assert (Hq : length (o ++ rem) = length R) by (rewrite app_length; lia).
      assert (Er : length R - length chs * bs = length rem) by nia.
      assert (G1 : fits (bs - pos) (length R) (length (tl ++ o ++ rem)) = true)
        by (apply fits_true; rewrite app_length, Hq; lia).
      assert (G2 : fits (length chs * bs) (length R - length chs * bs)
                     (length (firstn (length R) (skipn (bs - pos) (tl ++ o ++ rem)))) = true)
        by (apply fits_true; rewrite (seg_read_tail tl (o ++ rem)), Hq by lia; nia).
      pose (r0 := firstn (length R) (skipn (bs - pos) (tl ++ o ++ rem))).
      pose (m0 := firstn (length R - length chs * bs) (skipn (length chs * bs) r0)).
      pose (sp := MirSem.splice (length chs * bs) (length R - length chs * bs) (xor_into m0 iv2) r0).
      assert (Er0 : r0 = o ++ rem) by (unfold r0; apply seg_read_tail; lia).
      assert (Em0 : m0 = rem) by (unfold m0; rewrite Er0; apply seg_read_tail; lia).
      assert (Esp : sp = o ++ xorb rem iv2).
      { unfold sp. rewrite Em0, Er0. rewrite (seg_write_tail o rem) by lia.
        unfold xor_into. rewrite (skipn_all2 (n := length iv2)) by lia. now rewrite app_nil_r. }
      assert (G4 : len_eq (length sp) (length R) = true)
        by (apply len_eq_true; rewrite Esp, app_length, xorb_length; lia).
      unfold sp, m0, r0 in G4. unfold bs in G1, G2, G4.
      run_prefix 1. run_prefix 1. fold bs.
      fold r0. fold m0. fold sp. rewrite Esp, Em0.
      rewrite (seg_write_tail tl (o ++ rem)) by lia.
      assert (Hx : length (xorb rem iv2) = length rem) by (rewrite xorb_length; lia).
      assert (Hq2 : length (o ++ xorb rem iv2) = length R) by (rewrite app_length; lia).
      assert (G5 : fits (bs - pos) (length R) (length (tl ++ o ++ xorb rem iv2)) = true)
        by (apply fits_true; rewrite app_length, Hq2; lia).
      assert (G6 : fits (length chs * bs) (length R - length chs * bs)
                     (length (firstn (length R) (skipn (bs - pos) (tl ++ o ++ xorb rem iv2)))) = true)
        by (apply fits_true; rewrite (seg_read_tail tl (o ++ xorb rem iv2)), Hq2 by lia; nia).
      unfold bs in G5, G6.
      run_rest. evf_l. fold bs.
      rewrite (seg_read_tail tl (o ++ xorb rem iv2)) by lia.
      rewrite (seg_read_tail o (xorb rem iv2)) by lia. rewrite Hx.
      unfold buf_apply, usub, slice_from. fold bs.
      replace (Nat.leb pos bs) with true by (symmetry; apply Nat.leb_le; lia). cbn [obind].
      replace (Nat.ltb (length (left ++ R)) (bs - pos)) with false
        by (symmetry; apply Nat.ltb_ge; rewrite app_length; lia).
      replace (Nat.leb pos (length iv)) with true by (symmetry; apply Nat.leb_le; lia). cbn [obind].
      rewrite (firstn_app_exact left R) by lia. rewrite (skipn_app_exact left R) by lia.
      rewrite <- Eks, <- Etl.
      assert (Espl : Outcome.splice iv pos left = MirSem.splice pos (length iv - pos) left iv).
      { unfold Outcome.splice, MirSem.splice. do 3 f_equal. lia. }
      rewrite Espl, <- Eiv1. rewrite ER, (chunks_concat bs chs rem) by auto. rewrite Ek.
      replace (Nat.min (length rem) (length iv2)) with (length rem) by lia. rewrite firstn_all. reflexivity.
  Qed.
  (* the exported state is (block, position) as stored; from_state stores what it is given *)
  Lemma tie_buf_dec_get_state iv pos :
    call_fn X cfb_mode__decrypt_____BufDecryptor__get_state [buf_self iv pos] = Some (VTuple [VBlk iv; VNat pos], [buf_self iv pos]).
  Proof. run_fn. reflexivity. Qed.

  Lemma tie_buf_dec_from_state iv pos :
    call_fn X cfb_mode__decrypt_____BufDecryptor__from_state [VCipher true false; VBlk iv; VNat pos]
    = Some (VStruct "Self" [("cipher", VCipher true false); ("iv", VBlk iv); ("pos", VNat pos)],
            [VCipher true false; VBlk iv; VNat pos]).
  Proof. run_fn. reflexivity. Qed.
End Buf.
