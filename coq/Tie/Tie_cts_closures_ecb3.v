(* Tie_cts_closures_ecb3.v -- semantic tie of a closure body of cts/src/*_cs*.rs (the code that runs inside
   encrypt_with_backend / decrypt_with_backend) to the byte-granular model of coq/Cts.v; see Tie_cts_closures_cbc1.v.
   The body ends in an `if`: MirLemmas.run_last_if evaluates the condition and the proof steps through the branch taken. *)
From BM Require Import Tie.TieLib Tie.ClosureLib Cts Cts_mem Cts_proofs Cts_spec Cts_cs_proofs Cts_dec_proofs Spec Spec_proofs BlockModes_proofs.
From BMGen Require Import Src_cts.
Local Open Scope string_scope.
Local Open Scope list_scope.

Section EcbCs3Enc.
  Variable C : cipher.
  Let bs := c_bs C.
  Hypothesis bs_pos : 0 < bs.
  Hypothesis E_len : forall x, length x = bs -> length (c_E C x) = bs.
  Let X := bctx C [("ecb_enc", FSem (ecb_enc_sem C)); ("core::mem::swap", FSem swap_sem)]
                  [("into_chunks::BS", VNat bs); ("Block::<B>::default()", VBlk (zeros bs)); ("B::BlockSize::USIZE", VNat bs)].


  Lemma tie_cts__ecb_cs3__BlockCipherEncClosure__Closure__call al ib it ob ot :
    all_len bs ib -> all_len bs ob -> length ib = length ob -> 1 <= length ib ->
    length it = length ot -> length ot < bs ->
    exists e' o', run_body X (eenv true al (concat ib ++ it) (concat ob ++ ot)) cts__ecb_cs3__BlockCipherEncClosure__Closure__call = Some (e', VUnit)
      /\ lookup "buf" e' = Some (VBuf al (concat ib ++ it) o')
      /\ ecb_cs3_enc C (mkmem al (concat ib ++ it) (concat ob ++ ot)) = Ok (mkmem al (concat ib ++ it) o').
  Proof.
    intros Hib Hob Hnb Hnb1 Htl Htl2. unfold run_body. unfold block in *.
    remember (length ib) as nb eqn:Enb.
    destruct (bulk C bs_pos (cts_ecb_enc C) (fun _ _ => tt) (fun _ bl => map (c_E C) bl) (cts_ecb_enc_eq C)
               (fun _ bl H => conj (map_length _ _) (all_len_map_f (c_E C) bs bl E_len H)) tt al ib it ob ot nb Hib Hob (eq_sym Enb) (eq_sym Hnb) Htl)
      as (Ecells & HCl & HCa & Ecbc & Eouts & Emain).
    remember (length ot) as tl eqn:Etl.
    fold bs in Ecells, HCl, HCa, Ecbc, Eouts, Emain.
    remember (map (c_E C) (map rd_in (map2 (mkcell al) ib ob))) as Cs eqn:ECs.
    assert (Hci : length (concat ib) = nb * bs) by (rewrite (all_len_concat_length bs) by auto; lia).
    assert (Hco : length (concat ob) = nb * bs) by (rewrite (all_len_concat_length bs) by auto; lia).
    remember (concat ib ++ it) as i eqn:Ei. remember (concat ob ++ ot) as o eqn:Eo.
    assert (HLi : length i = nb * bs + tl) by (subst i; rewrite app_length; lia).
    assert (HLo : length o = nb * bs + tl) by (subst o; rewrite app_length; lia).
    assert (Hdiv : ndiv (length o) bs = nb).
    { unfold ndiv. rewrite HLo. symmetry. apply (Nat.div_unique _ _ _ tl); lia. }
    assert (F0 : in_range 0 (c_bs C) = true) by (apply in_range_true; fold bs; lia).
    run_prefix 2. fold bs. rewrite Hdiv. replace (length o - nb * bs) with tl by lia.
    remember (cells_of bs al (firstn (nb * bs) (skipn 0 i)) (firstn (nb * bs) (skipn 0 o))) as cells0 eqn:Ec0.
    assert (Eouts' : outs_of (ee_cs C cells0) = concat Cs) by exact Eouts.
    assert (Hol : length (concat Cs) = nb * bs).
    { rewrite (all_len_concat_length bs) by auto. unfold block in *. nia. }
    assert (Eo1 : MirSem.splice 0 (nb * bs) (concat Cs) o = concat Cs ++ ot).
    { subst o. apply seg_write_head. lia. }
    assert (F1 : fits 0 (nb * bs) (length o) = true) by (apply fits_true; lia).
    assert (F2 : fits 0 (nb * bs) (length i) = true) by (apply fits_true; lia).
    assert (F3 : len_eq (length (concat Cs)) (nb * bs) = true) by (apply len_eq_true; exact Hol).
    assert (Emodel : ecb_cs3_enc C (mkmem al i o) =
       if Nat.eqb tl 0 then (if Nat.ltb 1 nb then swap_last_two C (mkmem al i (concat Cs ++ ot)) nb else Ok (mkmem al i (concat Cs ++ ot)))
       else ecb_steal C (c_E C) (mkmem al i (concat Cs ++ ot)) nb tl).
    { unfold ecb_cs3_enc. fold bs. unfold mlen. cbn [m_out].
      assert (Hd : length o / bs = nb) by (rewrite HLo; symmetry; apply (Nat.div_unique _ _ _ tl); lia).
      assert (Hm : length o mod bs = tl) by (rewrite HLo; symmetry; apply (Nat.mod_unique _ _ nb); lia).
      rewrite Hd, Hm. replace (Nat.ltb (length o) bs) with false by (symmetry; apply Nat.ltb_ge; nia).
      rewrite Emain. cbn [obind]. destruct (cts_ecb_enc C tt cells0). reflexivity. }
    unfold bs in F1, F2, F3.
    Opaque ee_cs cells_of outs_of.
    run_prefix 1.
    match goal with |- context [outs_of (ee_cs C ?a)] => replace (outs_of (ee_cs C a)) with (concat Cs) by (symmetry; subst cells0; exact Eouts') end.
    match goal with |- context [len_eq ?a ?b] => replace (len_eq a b) with true by (symmetry; exact F3) end. cbv beta iota.
    match goal with |- context [MirSem.splice ?a ?b ?c ?d] => replace (MirSem.splice a b c d) with (concat Cs ++ ot) by (symmetry; exact Eo1) end.
    assert (HL1 : length (concat Cs ++ ot) = nb * bs + tl) by (rewrite app_length; lia).
    assert (G1 : fits (nb * bs) tl (length (concat Cs ++ ot)) = true) by (apply fits_true; lia).
    assert (G2 : fits (nb * bs) tl (length i) = true) by (apply fits_true; lia).
    assert (ET : forall ot', firstn tl (skipn (nb * bs) (concat Cs ++ ot')) = firstn tl ot').
    { intros ot'. rewrite <- Hol, skipn_app_exact by reflexivity. reflexivity. }
    assert (EI : firstn tl (skipn (nb * bs) i) = it).
    { subst i. rewrite <- Hci, skipn_app_exact by reflexivity. apply firstn_all2. lia. }
    rewrite run_last_if.
    match goal with |- context [evalC ?X0 ?e0 ?c0] => eval_sub (evalC X0 e0 c0) end. fold bs.
    repeat first [ok_check | progress (rewrite ?(ET ot), ?(firstn_all2 ot) by lia) | progress (rewrite <- ?Etl)].
    destruct (Nat.eq_dec tl 0) as [Htl0|Htl0].
    - replace (len_eq tl 0) with true by (symmetry; apply len_eq_true; exact Htl0).
      match goal with |- context [as_data ?e (RV (VBoolV ?b))] => change (as_data e (RV (VBoolV b))) with (Some (VBoolV b)) end. cbv beta iota.
      unfold run_block. rewrite run_last_if.
      assert (Ecl : forall ot', cells_of bs al (firstn (nb * bs) (skipn 0 i)) (firstn (nb * bs) (skipn 0 (concat Cs ++ ot'))) = map2 (mkcell al) ib Cs).
      { intros ot'. subst i. cbn [skipn]. Transparent cells_of. unfold cells_of. Opaque cells_of.
        rewrite <- Hci at 1. rewrite <- Hol. rewrite !firstn_app_exact by reflexivity. rewrite !(chunks_blocks_only C) by auto. reflexivity. }
      assert (Erd : forall ot', map rd_out (cells_of bs al (firstn (nb * bs) (skipn 0 i)) (firstn (nb * bs) (skipn 0 (concat Cs ++ ot')))) = Cs).
      { intros ot'. rewrite Ecl. apply map_rd_out_mkcell. lia. }
      match goal with |- context [evalC ?X0 ?e0 ?c0] => eval_sub (evalC X0 e0 c0) end. fold bs. unfold block in *.
      repeat first [ok_check | progress (rewrite ?Ecl, ?map2_length, ?HCl, <- ?Enb, ?Nat.min_id)].
      destruct (Nat.eq_dec nb 1) as [Hnb2|Hnb2].
      + replace (in_range 1 nb) with false by (symmetry; apply in_range_false; lia).
        match goal with |- context [as_data ?e (RV (VBoolV ?b))] => change (as_data e (RV (VBoolV b))) with (Some (VBoolV b)) end. cbv beta iota.
        eexists _, _. split; [reflexivity|]. split; [reflexivity|]. rewrite Emodel.
        replace (Nat.eqb tl 0) with true by (symmetry; apply Nat.eqb_eq; exact Htl0).
        replace (Nat.ltb 1 nb) with false by (symmetry; apply Nat.ltb_ge; lia). reflexivity.
      + replace (in_range 1 nb) with true by (symmetry; apply in_range_true; lia).
        match goal with |- context [as_data ?e (RV (VBoolV ?b))] => change (as_data e (RV (VBoolV b))) with (Some (VBoolV b)) end. cbv beta iota.
        unfold run_block.
        run_prefix 1.
        run_prefix 1. fold bs. unfold block in *.
        repeat first [ok_check | progress (rewrite ?Erd, ?Ecl, ?map2_length, ?HCl, <- ?Enb, ?Nat.min_id)].
        run_prefix 1. fold bs. unfold block in *.
        repeat first [ok_check | progress (rewrite ?Erd, ?Ecl, ?map2_length, ?HCl, <- ?Enb, ?Nat.min_id, ?firstn_length, ?skipn_length)].
        replace (Init.Nat.min (nb - 1) (nb - 0) - 1) with (nb - 2) by lia.
        destruct (exists_last (l := Cs)) as (Cp & cl & ECp). { intros E0; rewrite E0 in HCl; cbn in HCl; lia. }
        assert (Hcp : length Cp = nb - 1) by (rewrite ECp, app_length in HCl; cbn in HCl; lia).
        destruct (exists_last (l := Cp)) as (Cpp & cpen & ECpp). { intros E0; rewrite E0 in Hcp; cbn in Hcp; lia. }
        assert (Hcpp : length Cpp = nb - 2) by (rewrite ECpp, app_length in Hcp; cbn in Hcp; lia).
        assert (ECs3 : Cs = Cpp ++ [cpen; cl]) by (rewrite ECp, ECpp, <- app_assoc; reflexivity).
        assert (Hall : all_len bs Cpp /\ length cpen = bs /\ length cl = bs).
        { rewrite ECs3 in HCa. apply Forall_app in HCa. destruct HCa as [Ha Hb]. inversion Hb as [|? ? Hb1 Hb2]; subst. inversion Hb2; subst. auto. }
        destruct Hall as (HCpp & Hcpen & Hcl).
        assert (Efn : firstn (nb - 1) (skipn 0 Cs) = Cpp ++ [cpen]).
        { cbn [skipn]. rewrite ECp, <- Hcp, firstn_app_exact by reflexivity. exact ECpp. }
        assert (Enth1 : nth (nb - 2) (Cpp ++ [cpen]) [] = cpen) by (rewrite <- Hcpp, app_nth2, Nat.sub_diag by lia; reflexivity).
        assert (Enth2 : nth (nb - 1) Cs [] = cl) by (rewrite ECp, <- Hcp, app_nth2, Nat.sub_diag by lia; reflexivity).
        assert (EclZ : forall Z ot', all_len bs Z -> length Z = nb ->
                  cells_of bs al (firstn (nb * bs) (skipn 0 i)) (firstn (nb * bs) (skipn 0 (concat Z ++ ot'))) = map2 (mkcell al) ib Z).
        { intros Z ot' HZ HZl. subst i. cbn [skipn]. Transparent cells_of. unfold cells_of. Opaque cells_of.
          assert (HZc : length (concat Z) = nb * bs) by (rewrite (all_len_concat_length bs) by auto; unfold block in *; nia).
          rewrite <- Hci at 1. rewrite <- HZc. rewrite !firstn_app_exact by reflexivity. rewrite !(chunks_blocks_only C) by auto. reflexivity. }
        pose (W1 := Cpp ++ [cl; cl]). pose (W2 := Cpp ++ [cl; cpen]).
        assert (HW1 : all_len bs W1 /\ length W1 = nb).
        { split; [apply Forall_app; split; auto; repeat constructor; auto | unfold W1; rewrite app_length; cbn [length]; lia]. }
        assert (HW2 : all_len bs W2 /\ length W2 = nb).
        { split; [apply Forall_app; split; auto; repeat constructor; auto | unfold W2; rewrite app_length; cbn [length]; lia]. }
        destruct HW1 as [HW1a HW1l]. destruct HW2 as [HW2a HW2l].
        assert (Eu1 : upd_nth (nb - 2) cl (Cpp ++ [cpen]) = Cpp ++ [cl]).
        { rewrite <- Hcpp. clear. induction Cpp as [|x Cpp IH]; cbn [length upd_nth app]; [reflexivity|]. f_equal. exact IH. }
        assert (Ew1 : firstn 0 Cs ++ (Cpp ++ [cl]) ++ skipn (0 + (nb - 1)) Cs = W1).
        { cbn [firstn app Nat.add]. rewrite ECp at 1. rewrite <- Hcp, skipn_app_exact by reflexivity. unfold W1. rewrite <- app_assoc. reflexivity. }
        assert (Eu2 : upd_nth (nb - 1) cpen W1 = W2).
        { unfold W1, W2. replace (nb - 1) with (S (length Cpp)) by lia. clear. induction Cpp as [|x Cpp IH]; cbn [length upd_nth app]; [reflexivity|]. f_equal. exact IH. }
        assert (Eow1 : outs_of (map2 wr_out (map2 (mkcell al) ib Cs) W1) = concat W1) by (apply outs_wr_mkcell; lia).
        assert (Eow2 : outs_of (map2 wr_out (map2 (mkcell al) ib W1) W2) = concat W2) by (apply outs_wr_mkcell; lia).
        assert (HcW1 : length (concat W1) = nb * bs) by (rewrite (all_len_concat_length bs) by auto; unfold block in *; nia).
        assert (HcW2 : length (concat W2) = nb * bs) by (rewrite (all_len_concat_length bs) by auto; unfold block in *; nia).
        assert (Es1 : MirSem.splice 0 (nb * bs) (concat W1) (concat Cs ++ ot) = concat W1 ++ ot) by (apply seg_write_head; lia).
        assert (Es2 : MirSem.splice 0 (nb * bs) (concat W2) (concat W1 ++ ot) = concat W2 ++ ot) by (apply seg_write_head; lia).
        assert (ErdW1 : map rd_out (map2 (mkcell al) ib W1) = W1) by (apply map_rd_out_mkcell; lia).
        assert (Enth3 : nth (nb - 1) W1 [] = cl).
        { unfold W1. replace (nb - 1) with (S (length Cpp)) by lia. clear. induction Cpp as [|x Cpp IH]; cbn [length nth app]; auto. }
        assert (EW2 : W2 = Cpp ++ [cl; cpen]) by reflexivity.
        clearbody W1 W2.
        run_rest. fold bs. unfold block in *.
        repeat first [ok_check | progress (rewrite ?Erd, ?Ecl, ?map2_length, ?HCl, <- ?Enb, ?Nat.min_id, ?Efn, ?Enth1, ?Enth2, ?Eu1, ?Ew1, ?Eow1, ?HW1l, ?HcW1, ?Es1)
          | progress (rewrite ?(EclZ W1 ot HW1a HW1l), ?ErdW1, ?Eu2, ?Eow2, ?HW2l, ?HcW2, ?Es2) | progress (rewrite ?app_length; cbn [length])].
        eexists _, _. split; [reflexivity|]. split; [reflexivity|]. rewrite Emodel.
        replace (Nat.eqb tl 0) with true by (symmetry; apply Nat.eqb_eq; exact Htl0).
        replace (Nat.ltb 1 nb) with true by (symmetry; apply Nat.ltb_lt; lia).
        assert (HP : length (concat Cpp) = (nb - 2) * bs) by (rewrite (all_len_concat_length bs) by auto; unfold block in *; lia).
        assert (EB : concat Cs ++ ot = concat Cpp ++ cpen ++ cl ++ ot).
        { rewrite ECs3, concat_app. cbn [concat]. rewrite app_nil_r, <- !app_assoc. reflexivity. }
        assert (EB2 : concat W2 ++ ot = concat Cpp ++ cl ++ cpen ++ ot).
        { rewrite EW2, concat_app. cbn [concat]. rewrite app_nil_r, <- !app_assoc. reflexivity. }
        rewrite EB, EB2. unfold swap_last_two. fold bs.
        replace ((nb - 1) * bs) with ((nb - 2) * bs + bs) by nia.
        unfold mget_out, slice. cbn [m_out]. rewrite !app_length, HP, Hcpen, Hcl.
        replace (Nat.leb ((nb - 2) * bs) ((nb - 2) * bs + bs)) with true by (symmetry; apply Nat.leb_le; lia).
        replace (Nat.leb ((nb - 2) * bs + bs) ((nb - 2) * bs + (bs + (bs + length ot)))) with true by (symmetry; apply Nat.leb_le; lia).
        replace (Nat.leb ((nb - 2) * bs + bs) ((nb - 2) * bs + bs + bs)) with true by (symmetry; apply Nat.leb_le; lia).
        replace (Nat.leb ((nb - 2) * bs + bs + bs) ((nb - 2) * bs + (bs + (bs + length ot)))) with true by (symmetry; apply Nat.leb_le; lia).
        cbn [andb obind].
        replace ((nb - 2) * bs + bs - (nb - 2) * bs) with bs by lia. replace ((nb - 2) * bs + bs + bs - ((nb - 2) * bs + bs)) with bs by lia.
        assert (R1 : firstn bs (skipn ((nb - 2) * bs + bs) (concat Cpp ++ cpen ++ cl ++ ot)) = cl).
        { rewrite <- HP. rewrite skipn_app, skipn_all2 by lia. replace (length (concat Cpp) + bs - length (concat Cpp)) with bs by lia.
          cbn [app]. rewrite <- Hcpen, skipn_app_exact by reflexivity. rewrite Hcpen, <- Hcl, firstn_app_exact by reflexivity. reflexivity. }
        assert (R2 : firstn bs (skipn ((nb - 2) * bs) (concat Cpp ++ cpen ++ cl ++ ot)) = cpen).
        { rewrite <- HP, skipn_app_exact by reflexivity. rewrite <- Hcpen, firstn_app_exact by reflexivity. reflexivity. }
        rewrite R1, R2. unfold mput_out at 1. cbn [m_al m_in m_out]. rewrite !app_length, HP, Hcpen, Hcl.
        replace (Nat.leb ((nb - 2) * bs + bs) ((nb - 2) * bs + (bs + (bs + length ot)))) with true by (symmetry; apply Nat.leb_le; lia).
        cbn [obind]. unfold mput_out. cbn [m_al m_in m_out].
        assert (S1 : splice (concat Cpp ++ cpen ++ cl ++ ot) ((nb - 2) * bs) cl = concat Cpp ++ cl ++ cl ++ ot).
        { unfold splice. rewrite <- HP, firstn_app_exact by reflexivity. rewrite skipn_app, skipn_all2 by lia.
          replace (length (concat Cpp) + length cl - length (concat Cpp)) with (length cpen) by lia. cbn [app]. rewrite skipn_app_exact by reflexivity. reflexivity. }
        rewrite S1, !app_length, HP, Hcl, Hcpen.
        replace (Nat.leb ((nb - 2) * bs + bs + bs) ((nb - 2) * bs + (bs + (bs + length ot)))) with true by (symmetry; apply Nat.leb_le; lia).
        do 2 f_equal. unfold splice. rewrite Hcpen.
        replace ((nb - 2) * bs + bs) with (length (concat Cpp ++ cl)) by (rewrite app_length; lia).
        rewrite (app_assoc (concat Cpp) cl), firstn_app_exact by reflexivity. rewrite <- app_assoc. f_equal. f_equal. f_equal.
        rewrite skipn_app, skipn_all2 by lia. replace (length (concat Cpp ++ cl) + bs - length (concat Cpp ++ cl)) with (length cl) by lia.
        cbn [app]. rewrite skipn_app_exact by reflexivity. reflexivity.
    - replace (len_eq tl 0) with false by (symmetry; apply len_eq_false; exact Htl0).
      match goal with |- context [as_data ?e (RV (VBoolV ?b))] => change (as_data e (RV (VBoolV b))) with (Some (VBoolV b)) end. cbv beta iota.
      unfold run_block.
      assert (Ecl : forall ot', cells_of bs al (firstn (nb * bs) (skipn 0 i)) (firstn (nb * bs) (skipn 0 (concat Cs ++ ot'))) = map2 (mkcell al) ib Cs).
      { intros ot'. subst i. cbn [skipn]. Transparent cells_of. unfold cells_of. Opaque cells_of.
        rewrite <- Hci at 1. rewrite <- Hol. rewrite !firstn_app_exact by reflexivity. rewrite !(chunks_blocks_only C) by auto. reflexivity. }
      assert (Erd : forall ot', map rd_out (cells_of bs al (firstn (nb * bs) (skipn 0 i)) (firstn (nb * bs) (skipn 0 (concat Cs ++ ot')))) = Cs).
      { intros ot'. rewrite Ecl. apply map_rd_out_mkcell. lia. }
      destruct (exists_last (l := Cs)) as (Cp & cl & ECp). { intros E0; rewrite E0 in HCl; cbn in HCl; lia. }
      assert (Hcp : length Cp = nb - 1) by (rewrite ECp, app_length in HCl; cbn in HCl; lia).
      assert (Hcl : length cl = bs) by (rewrite ECp in HCa; apply Forall_app in HCa; destruct HCa as [_ Hx]; inversion Hx; auto).
      assert (H1 : in_range 0 (length (map rd_out (cells_of bs al (firstn (nb * bs) (skipn 0 i)) (firstn (nb * bs) (skipn 0 (concat Cs ++ ot)))))) = true).
      { apply in_range_true. rewrite Erd. unfold block in *. lia. }
      unfold bs in H1.
      run_prefix 1. fold bs. rewrite Erd. rewrite HCl.
      replace (in_range 0 nb) with true by (symmetry; apply in_range_true; lia). cbv beta iota.
      run_prefix 2. fold bs. rewrite (ET ot), (firstn_all2 ot) by lia. rewrite <- Etl.
      run_prefix 1. fold bs. rewrite ?(ET ot), ?EI, ?(firstn_all2 ot) by lia. rewrite <- ?Etl.
      repeat ok_check. fold bs. rewrite ?(ET ot), ?EI, ?(firstn_all2 ot) by lia. rewrite <- ?Etl.
      remember (if al then ot else it) as tin eqn:Etin.
      assert (Htin : length tin = tl) by (subst tin; destruct al; lia).
      repeat ok_check.
      assert (Eblk : MirSem.splice 0 (tl - 0) tin (zeros bs) = tin ++ zeros (bs - tl)).
      { unfold MirSem.splice. cbn [firstn app Nat.add]. f_equal. unfold zeros. rewrite skipn_repeat_l. f_equal. lia. }
      rewrite Eblk.
      assert (Enth : nth (nb - 1) Cs [] = cl).
      { rewrite ECp, <- Hcp, app_nth2, Nat.sub_diag by lia. reflexivity. }
      run_prefix 1. fold bs. unfold block in *. rewrite ?Erd, ?Enth, ?HCl.
      assert (Emix : MirSem.splice tl (bs - tl) (firstn (bs - tl) (skipn tl cl)) (tin ++ zeros (bs - tl)) = mix tin cl).
      { unfold MirSem.splice, mix. rewrite <- Htin at 1. rewrite firstn_app_exact by reflexivity. f_equal.
        rewrite (skipn_all2 (tin ++ zeros (bs - tl))) by (rewrite app_length, zeros_length; lia). rewrite app_nil_r, Htin.
        apply firstn_all2. rewrite skipn_length. lia. }
      repeat first [ok_check | progress (rewrite ?Erd, ?Enth, ?HCl, ?Hcl, ?app_length, ?zeros_length, ?Htin)].
      replace (tl + (bs - tl) - tl) with (bs - tl) by lia. rewrite Emix.
      unfold bs. run_prefix 1. fold bs.
      match goal with |- context [VBlk (c_E C ?x)] => remember (c_E C x) as cb eqn:Ecb end.
      assert (Hcb : length cb = bs).
      { subst cb; apply E_len. unfold mix. rewrite app_length, skipn_length. lia. }
      unfold bs. run_prefix 1. fold bs. unfold block in *.
      repeat first [ok_check | progress (rewrite ?Erd, ?Enth, ?HCl, ?Hcl, ?app_length, ?zeros_length, ?Htin, ?(ET ot), ?(firstn_all2 ot) by lia)].
      assert (Eo2 : MirSem.splice (nb * bs) tl (firstn (tl - 0) (skipn 0 cl)) (concat Cs ++ ot) = concat Cs ++ firstn tl cl).
      { cbn [skipn]. rewrite Nat.sub_0_r. unfold MirSem.splice. rewrite <- Hol at 1. rewrite firstn_app_exact by reflexivity.
        rewrite skipn_all2 by (rewrite app_length; lia). rewrite app_nil_r. reflexivity. }
      rewrite Eo2.
      run_rest. fold bs. unfold block in *.
      assert (Eup : upd_nth (nb - 1) cb Cs = Cp ++ [cb]).
      { rewrite ECp, <- Hcp. clear. induction Cp as [|x Cp IH]; cbn [length upd_nth app]; [reflexivity|]. f_equal. exact IH. }
      assert (Hcpl : length (concat Cp) = (nb - 1) * bs).
      { rewrite (all_len_concat_length bs). - unfold block in *; lia. - rewrite ECp in HCa. apply Forall_app in HCa. tauto. }
      assert (Hup : length (concat (Cp ++ [cb])) = nb * bs).
      { rewrite concat_app, app_length, Hcpl. cbn [concat]. rewrite app_nil_r, Hcb. nia. }
      assert (Eow : outs_of (map2 wr_out (map2 (mkcell al) ib Cs) (Cp ++ [cb])) = concat (Cp ++ [cb])).
      { apply outs_wr_mkcell; [lia|]. rewrite app_length. cbn [length]. lia. }
      assert (Eo3 : MirSem.splice 0 (nb * bs) (concat (Cp ++ [cb])) (concat Cs ++ firstn tl cl) = concat (Cp ++ [cb]) ++ firstn tl cl).
      { apply seg_write_head. lia. }
      unfold block in *.
      repeat first [ok_check | progress (cbn [length]) | progress (rewrite ?Erd, ?Ecl, ?Enth, ?HCl, ?Hcl, ?app_length, ?zeros_length, ?Htin, ?Eup,
         ?Eow, ?map2_length, ?Hup, <- ?Enb, ?Nat.min_id, ?Hcp, ?Eo3)].
      eexists _, _. split; [reflexivity|]. split; [reflexivity|]. rewrite Emodel.
      replace (Nat.eqb tl 0) with false by (symmetry; apply Nat.eqb_neq; lia).
      unfold ecb_steal. fold bs. unfold usub. replace (Nat.leb 1 nb) with true by (symmetry; apply Nat.leb_le; lia). cbn [obind].
      assert (Ego : mget_out (mkmem al i (concat Cs ++ ot)) ((nb - 1) * bs) bs = Ok cl).
      { unfold mget_out, slice. cbn [m_out]. rewrite HL1.
        replace (Nat.leb ((nb - 1) * bs) ((nb - 1) * bs + bs)) with true by (symmetry; apply Nat.leb_le; lia).
        replace (Nat.leb ((nb - 1) * bs + bs) (nb * bs + tl)) with true by (symmetry; apply Nat.leb_le; nia). cbn [andb].
        replace ((nb - 1) * bs + bs - (nb - 1) * bs) with bs by lia.
        rewrite ECp, concat_app, <- app_assoc, <- Hcpl, skipn_app_exact by reflexivity. cbn [concat]. rewrite app_nil_r, <- Hcl, firstn_app_exact by reflexivity. reflexivity. }
      assert (Eg : mget_in (mkmem al i (concat Cs ++ ot)) (nb * bs) tl = Ok tin).
      { unfold mget_in, msrc, slice. cbn [m_al m_in m_out]. subst tin.
        replace (nb * bs + tl - nb * bs) with tl by lia.
        destruct al.
        - rewrite HL1. replace (Nat.leb (nb * bs) (nb * bs + tl)) with true by (symmetry; apply Nat.leb_le; lia).
          rewrite Nat.leb_refl. cbn [andb]. rewrite (ET ot), firstn_all2 by lia. reflexivity.
        - rewrite HLi. replace (Nat.leb (nb * bs) (nb * bs + tl)) with true by (symmetry; apply Nat.leb_le; lia).
          rewrite Nat.leb_refl. cbn [andb]. rewrite EI. reflexivity. }
      rewrite Ego. cbn [obind]. rewrite Eg. cbn [obind]. unfold mix. rewrite <- Ecb.
      unfold mput_out at 1. cbn [m_al m_in m_out]. rewrite HL1, firstn_length, Hcl.
      replace (Nat.leb (nb * bs + Nat.min tl bs) (nb * bs + tl)) with true by (symmetry; apply Nat.leb_le; lia). cbn [obind].
      unfold mput_out. cbn [m_al m_in m_out].
      assert (Es1 : splice (concat Cs ++ ot) (nb * bs) (firstn tl cl) = concat Cs ++ firstn tl cl).
      { unfold splice. rewrite <- Hol at 1. rewrite firstn_app_exact by reflexivity. rewrite skipn_all2 by (rewrite app_length, firstn_length; lia).
        rewrite app_nil_r. reflexivity. }
      rewrite Es1, app_length, Hol, firstn_length, Hcl, Hcb.
      replace (Nat.leb ((nb - 1) * bs + bs) (nb * bs + Nat.min tl bs)) with true by (symmetry; apply Nat.leb_le; nia). do 2 f_equal.
      unfold splice. rewrite Hcb.
      assert (ECs2 : concat Cs ++ firstn tl cl = concat Cp ++ cl ++ firstn tl cl).
      { rewrite ECp, concat_app. cbn [concat]. rewrite app_nil_r, <- app_assoc. reflexivity. }
      rewrite ECs2, <- Hcpl, firstn_app_exact by reflexivity.
      rewrite skipn_app, skipn_all2, Hcpl by lia. replace ((nb - 1) * bs + bs - (nb - 1) * bs) with bs by lia.
      rewrite <- Hcl, skipn_app_exact by reflexivity. cbn [app].
      rewrite concat_app. cbn [concat]. rewrite app_nil_r, <- app_assoc. reflexivity.
  Qed.

  (* ---- C05 over the translated source: the bytes this closure body leaves in the buffer are the NIST SP 800-38A
     Addendum ciphertext of the message, buffer-to-buffer (any prior contents of the output buffer) and in place --
     the tie theorem above composed with Cts_cs_proofs.ecb_cs3_enc_ok (= Props/C05). *)
  Theorem C05_ecb_cs3_enc_source_b2b (blocks : list (list N)) (tail : list N) (ob : list (list N)) (ot : list N) :
    cipher_wf C -> all_len bs blocks -> 1 <= length blocks -> length tail < bs ->
    all_len bs ob -> length ob = length blocks -> length ot = length tail ->
    exists e', run_body X (eenv true false (concat blocks ++ tail) (concat ob ++ ot)) cts__ecb_cs3__BlockCipherEncClosure__Closure__call = Some (e', VUnit)
      /\ lookup "buf" e' = Some (VBuf false (concat blocks ++ tail) (ecb_cs3_spec bs (c_E C) blocks tail)).
  Proof.
    intros Cwf Hb Hn Ht Hob Hobl Hotl.
    destruct (tie_cts__ecb_cs3__BlockCipherEncClosure__Closure__call false blocks tail ob ot) as (e' & o' & Hrun & Hbuf & Hmod); auto; try lia.
    assert (Hm : msg_mem C (mkmem false (concat blocks ++ tail) (concat ob ++ ot)) blocks tail).
    { constructor; auto. split; [|discriminate]. cbn [m_in m_out]. rewrite !app_length, !(all_len_concat_length bs) by auto. lia. }
    destruct (ecb_cs3_enc_ok C Cwf _ blocks tail Hm) as (m' & E1 & E2).
    fold bs in E2. rewrite Hmod in E1. injection E1 as <-. cbn [m_out] in E2. subst o'.
    exists e'. split; [exact Hrun | exact Hbuf].
  Qed.

  Theorem C05_ecb_cs3_enc_source_inplace (blocks : list (list N)) (tail : list N) :
    cipher_wf C -> all_len bs blocks -> 1 <= length blocks -> length tail < bs ->
    exists e', run_body X (eenv true true (concat blocks ++ tail) (concat blocks ++ tail)) cts__ecb_cs3__BlockCipherEncClosure__Closure__call = Some (e', VUnit)
      /\ lookup "buf" e' = Some (VBuf true (concat blocks ++ tail) (ecb_cs3_spec bs (c_E C) blocks tail)).
  Proof.
    intros Cwf Hb Hn Ht.
    destruct (tie_cts__ecb_cs3__BlockCipherEncClosure__Closure__call true blocks tail blocks tail) as (e' & o' & Hrun & Hbuf & Hmod); auto; try lia.
    assert (Hm : msg_mem C (mkmem true (concat blocks ++ tail) (concat blocks ++ tail)) blocks tail).
    { constructor; auto. split; auto. }
    destruct (ecb_cs3_enc_ok C Cwf _ blocks tail Hm) as (m' & E1 & E2).
    fold bs in E2. rewrite Hmod in E1. injection E1 as <-. cbn [m_out] in E2. subst o'.
    exists e'. split; [exact Hrun | exact Hbuf].
  Qed.
End EcbCs3Enc.

Section EcbCs3Dec.
  Variable C : cipher.
  Let bs := c_bs C.
  Hypothesis bs_pos : 0 < bs.
  Hypothesis D_len : forall x, length x = bs -> length (c_D C x) = bs.
  Let X := bctx C [("ecb_dec", FSem (ecb_dec_sem C)); ("core::mem::swap", FSem swap_sem)]
                  [("into_chunks::BS", VNat bs); ("Block::<B>::default()", VBlk (zeros bs)); ("B::BlockSize::USIZE", VNat bs)].


  Lemma tie_cts__ecb_cs3__BlockCipherDecClosure__Closure__call al ib it ob ot :
    all_len bs ib -> all_len bs ob -> length ib = length ob -> 1 <= length ib ->
    length it = length ot -> length ot < bs ->
    exists e' o', run_body X (eenv false al (concat ib ++ it) (concat ob ++ ot)) cts__ecb_cs3__BlockCipherDecClosure__Closure__call = Some (e', VUnit)
      /\ lookup "buf" e' = Some (VBuf al (concat ib ++ it) o')
      /\ ecb_cs3_dec C (mkmem al (concat ib ++ it) (concat ob ++ ot)) = Ok (mkmem al (concat ib ++ it) o').
  Proof.
    intros Hib Hob Hnb Hnb1 Htl Htl2. unfold run_body. unfold block in *.
    remember (length ib) as nb eqn:Enb.
    destruct (bulk C bs_pos (cts_ecb_dec C) (fun _ _ => tt) (fun _ bl => map (c_D C) bl) (cts_ecb_dec_eq C)
               (fun _ bl H => conj (map_length _ _) (all_len_map_f (c_D C) bs bl D_len H)) tt al ib it ob ot nb Hib Hob (eq_sym Enb) (eq_sym Hnb) Htl)
      as (Ecells & HCl & HCa & Ecbc & Eouts & Emain).
    remember (length ot) as tl eqn:Etl.
    fold bs in Ecells, HCl, HCa, Ecbc, Eouts, Emain.
    remember (map (c_D C) (map rd_in (map2 (mkcell al) ib ob))) as Cs eqn:ECs.
    assert (Hci : length (concat ib) = nb * bs) by (rewrite (all_len_concat_length bs) by auto; lia).
    assert (Hco : length (concat ob) = nb * bs) by (rewrite (all_len_concat_length bs) by auto; lia).
    remember (concat ib ++ it) as i eqn:Ei. remember (concat ob ++ ot) as o eqn:Eo.
    assert (HLi : length i = nb * bs + tl) by (subst i; rewrite app_length; lia).
    assert (HLo : length o = nb * bs + tl) by (subst o; rewrite app_length; lia).
    assert (Hdiv : ndiv (length o) bs = nb).
    { unfold ndiv. rewrite HLo. symmetry. apply (Nat.div_unique _ _ _ tl); lia. }
    assert (F0 : in_range 0 (c_bs C) = true) by (apply in_range_true; fold bs; lia).
    run_prefix 2. fold bs. rewrite Hdiv. replace (length o - nb * bs) with tl by lia.
    remember (cells_of bs al (firstn (nb * bs) (skipn 0 i)) (firstn (nb * bs) (skipn 0 o))) as cells0 eqn:Ec0.
    assert (Eouts' : outs_of (ed_cs C cells0) = concat Cs) by exact Eouts.
    assert (Hol : length (concat Cs) = nb * bs).
    { rewrite (all_len_concat_length bs) by auto. unfold block in *. nia. }
    assert (Eo1 : MirSem.splice 0 (nb * bs) (concat Cs) o = concat Cs ++ ot).
    { subst o. apply seg_write_head. lia. }
    assert (F1 : fits 0 (nb * bs) (length o) = true) by (apply fits_true; lia).
    assert (F2 : fits 0 (nb * bs) (length i) = true) by (apply fits_true; lia).
    assert (F3 : len_eq (length (concat Cs)) (nb * bs) = true) by (apply len_eq_true; exact Hol).
    assert (Emodel : ecb_cs3_dec C (mkmem al i o) =
       if Nat.eqb tl 0 then (if Nat.ltb 1 nb then swap_last_two C (mkmem al i (concat Cs ++ ot)) nb else Ok (mkmem al i (concat Cs ++ ot)))
       else ecb_steal C (c_D C) (mkmem al i (concat Cs ++ ot)) nb tl).
    { unfold ecb_cs3_dec. fold bs. unfold mlen. cbn [m_out].
      assert (Hd : length o / bs = nb) by (rewrite HLo; symmetry; apply (Nat.div_unique _ _ _ tl); lia).
      assert (Hm : length o mod bs = tl) by (rewrite HLo; symmetry; apply (Nat.mod_unique _ _ nb); lia).
      rewrite Hd, Hm. replace (Nat.ltb (length o) bs) with false by (symmetry; apply Nat.ltb_ge; nia).
      rewrite Emain. cbn [obind]. destruct (cts_ecb_dec C tt cells0). reflexivity. }
    unfold bs in F1, F2, F3.
    Opaque ed_cs cells_of outs_of.
    run_prefix 1.
    match goal with |- context [outs_of (ed_cs C ?a)] => replace (outs_of (ed_cs C a)) with (concat Cs) by (symmetry; subst cells0; exact Eouts') end.
    match goal with |- context [len_eq ?a ?b] => replace (len_eq a b) with true by (symmetry; exact F3) end. cbv beta iota.
    match goal with |- context [MirSem.splice ?a ?b ?c ?d] => replace (MirSem.splice a b c d) with (concat Cs ++ ot) by (symmetry; exact Eo1) end.
    assert (HL1 : length (concat Cs ++ ot) = nb * bs + tl) by (rewrite app_length; lia).
    assert (G1 : fits (nb * bs) tl (length (concat Cs ++ ot)) = true) by (apply fits_true; lia).
    assert (G2 : fits (nb * bs) tl (length i) = true) by (apply fits_true; lia).
    assert (ET : forall ot', firstn tl (skipn (nb * bs) (concat Cs ++ ot')) = firstn tl ot').
    { intros ot'. rewrite <- Hol, skipn_app_exact by reflexivity. reflexivity. }
    assert (EI : firstn tl (skipn (nb * bs) i) = it).
    { subst i. rewrite <- Hci, skipn_app_exact by reflexivity. apply firstn_all2. lia. }
    rewrite run_last_if.
    match goal with |- context [evalC ?X0 ?e0 ?c0] => eval_sub (evalC X0 e0 c0) end. fold bs.
    repeat first [ok_check | progress (rewrite ?(ET ot), ?(firstn_all2 ot) by lia) | progress (rewrite <- ?Etl)].
    destruct (Nat.eq_dec tl 0) as [Htl0|Htl0].
    - replace (len_eq tl 0) with true by (symmetry; apply len_eq_true; exact Htl0).
      match goal with |- context [as_data ?e (RV (VBoolV ?b))] => change (as_data e (RV (VBoolV b))) with (Some (VBoolV b)) end. cbv beta iota.
      unfold run_block. rewrite run_last_if.
      assert (Ecl : forall ot', cells_of bs al (firstn (nb * bs) (skipn 0 i)) (firstn (nb * bs) (skipn 0 (concat Cs ++ ot'))) = map2 (mkcell al) ib Cs).
      { intros ot'. subst i. cbn [skipn]. Transparent cells_of. unfold cells_of. Opaque cells_of.
        rewrite <- Hci at 1. rewrite <- Hol. rewrite !firstn_app_exact by reflexivity. rewrite !(chunks_blocks_only C) by auto. reflexivity. }
      assert (Erd : forall ot', map rd_out (cells_of bs al (firstn (nb * bs) (skipn 0 i)) (firstn (nb * bs) (skipn 0 (concat Cs ++ ot')))) = Cs).
      { intros ot'. rewrite Ecl. apply map_rd_out_mkcell. lia. }
      match goal with |- context [evalC ?X0 ?e0 ?c0] => eval_sub (evalC X0 e0 c0) end. fold bs. unfold block in *.
      repeat first [ok_check | progress (rewrite ?Ecl, ?map2_length, ?HCl, <- ?Enb, ?Nat.min_id)].
      destruct (Nat.eq_dec nb 1) as [Hnb2|Hnb2].
      + replace (in_range 1 nb) with false by (symmetry; apply in_range_false; lia).
        match goal with |- context [as_data ?e (RV (VBoolV ?b))] => change (as_data e (RV (VBoolV b))) with (Some (VBoolV b)) end. cbv beta iota.
        eexists _, _. split; [reflexivity|]. split; [reflexivity|]. rewrite Emodel.
        replace (Nat.eqb tl 0) with true by (symmetry; apply Nat.eqb_eq; exact Htl0).
        replace (Nat.ltb 1 nb) with false by (symmetry; apply Nat.ltb_ge; lia). reflexivity.
      + replace (in_range 1 nb) with true by (symmetry; apply in_range_true; lia).
        match goal with |- context [as_data ?e (RV (VBoolV ?b))] => change (as_data e (RV (VBoolV b))) with (Some (VBoolV b)) end. cbv beta iota.
        unfold run_block.
        run_prefix 1.
        run_prefix 1. fold bs. unfold block in *.
        repeat first [ok_check | progress (rewrite ?Erd, ?Ecl, ?map2_length, ?HCl, <- ?Enb, ?Nat.min_id)].
        run_prefix 1. fold bs. unfold block in *.
        repeat first [ok_check | progress (rewrite ?Erd, ?Ecl, ?map2_length, ?HCl, <- ?Enb, ?Nat.min_id, ?firstn_length, ?skipn_length)].
        replace (Init.Nat.min (nb - 1) (nb - 0) - 1) with (nb - 2) by lia.
        destruct (exists_last (l := Cs)) as (Cp & cl & ECp). { intros E0; rewrite E0 in HCl; cbn in HCl; lia. }
        assert (Hcp : length Cp = nb - 1) by (rewrite ECp, app_length in HCl; cbn in HCl; lia).
        destruct (exists_last (l := Cp)) as (Cpp & cpen & ECpp). { intros E0; rewrite E0 in Hcp; cbn in Hcp; lia. }
        assert (Hcpp : length Cpp = nb - 2) by (rewrite ECpp, app_length in Hcp; cbn in Hcp; lia).
        assert (ECs3 : Cs = Cpp ++ [cpen; cl]) by (rewrite ECp, ECpp, <- app_assoc; reflexivity).
        assert (Hall : all_len bs Cpp /\ length cpen = bs /\ length cl = bs).
        { rewrite ECs3 in HCa. apply Forall_app in HCa. destruct HCa as [Ha Hb]. inversion Hb as [|? ? Hb1 Hb2]; subst. inversion Hb2; subst. auto. }
        destruct Hall as (HCpp & Hcpen & Hcl).
        assert (Efn : firstn (nb - 1) (skipn 0 Cs) = Cpp ++ [cpen]).
        { cbn [skipn]. rewrite ECp, <- Hcp, firstn_app_exact by reflexivity. exact ECpp. }
        assert (Enth1 : nth (nb - 2) (Cpp ++ [cpen]) [] = cpen) by (rewrite <- Hcpp, app_nth2, Nat.sub_diag by lia; reflexivity).
        assert (Enth2 : nth (nb - 1) Cs [] = cl) by (rewrite ECp, <- Hcp, app_nth2, Nat.sub_diag by lia; reflexivity).
        assert (EclZ : forall Z ot', all_len bs Z -> length Z = nb ->
                  cells_of bs al (firstn (nb * bs) (skipn 0 i)) (firstn (nb * bs) (skipn 0 (concat Z ++ ot'))) = map2 (mkcell al) ib Z).
        { intros Z ot' HZ HZl. subst i. cbn [skipn]. Transparent cells_of. unfold cells_of. Opaque cells_of.
          assert (HZc : length (concat Z) = nb * bs) by (rewrite (all_len_concat_length bs) by auto; unfold block in *; nia).
          rewrite <- Hci at 1. rewrite <- HZc. rewrite !firstn_app_exact by reflexivity. rewrite !(chunks_blocks_only C) by auto. reflexivity. }
        pose (W1 := Cpp ++ [cl; cl]). pose (W2 := Cpp ++ [cl; cpen]).
        assert (HW1 : all_len bs W1 /\ length W1 = nb).
        { split; [apply Forall_app; split; auto; repeat constructor; auto | unfold W1; rewrite app_length; cbn [length]; lia]. }
        assert (HW2 : all_len bs W2 /\ length W2 = nb).
        { split; [apply Forall_app; split; auto; repeat constructor; auto | unfold W2; rewrite app_length; cbn [length]; lia]. }
        destruct HW1 as [HW1a HW1l]. destruct HW2 as [HW2a HW2l].
        assert (Eu1 : upd_nth (nb - 2) cl (Cpp ++ [cpen]) = Cpp ++ [cl]).
        { rewrite <- Hcpp. clear. induction Cpp as [|x Cpp IH]; cbn [length upd_nth app]; [reflexivity|]. f_equal. exact IH. }
        assert (Ew1 : firstn 0 Cs ++ (Cpp ++ [cl]) ++ skipn (0 + (nb - 1)) Cs = W1).
        { cbn [firstn app Nat.add]. rewrite ECp at 1. rewrite <- Hcp, skipn_app_exact by reflexivity. unfold W1. rewrite <- app_assoc. reflexivity. }
        assert (Eu2 : upd_nth (nb - 1) cpen W1 = W2).
        { unfold W1, W2. replace (nb - 1) with (S (length Cpp)) by lia. clear. induction Cpp as [|x Cpp IH]; cbn [length upd_nth app]; [reflexivity|]. f_equal. exact IH. }
        assert (Eow1 : outs_of (map2 wr_out (map2 (mkcell al) ib Cs) W1) = concat W1) by (apply outs_wr_mkcell; lia).
        assert (Eow2 : outs_of (map2 wr_out (map2 (mkcell al) ib W1) W2) = concat W2) by (apply outs_wr_mkcell; lia).
        assert (HcW1 : length (concat W1) = nb * bs) by (rewrite (all_len_concat_length bs) by auto; unfold block in *; nia).
        assert (HcW2 : length (concat W2) = nb * bs) by (rewrite (all_len_concat_length bs) by auto; unfold block in *; nia).
        assert (Es1 : MirSem.splice 0 (nb * bs) (concat W1) (concat Cs ++ ot) = concat W1 ++ ot) by (apply seg_write_head; lia).
        assert (Es2 : MirSem.splice 0 (nb * bs) (concat W2) (concat W1 ++ ot) = concat W2 ++ ot) by (apply seg_write_head; lia).
        assert (ErdW1 : map rd_out (map2 (mkcell al) ib W1) = W1) by (apply map_rd_out_mkcell; lia).
        assert (Enth3 : nth (nb - 1) W1 [] = cl).
        { unfold W1. replace (nb - 1) with (S (length Cpp)) by lia. clear. induction Cpp as [|x Cpp IH]; cbn [length nth app]; auto. }
        assert (EW2 : W2 = Cpp ++ [cl; cpen]) by reflexivity.
        clearbody W1 W2.
        run_rest. fold bs. unfold block in *.
        repeat first [ok_check | progress (rewrite ?Erd, ?Ecl, ?map2_length, ?HCl, <- ?Enb, ?Nat.min_id, ?Efn, ?Enth1, ?Enth2, ?Eu1, ?Ew1, ?Eow1, ?HW1l, ?HcW1, ?Es1)
          | progress (rewrite ?(EclZ W1 ot HW1a HW1l), ?ErdW1, ?Eu2, ?Eow2, ?HW2l, ?HcW2, ?Es2) | progress (rewrite ?app_length; cbn [length])].
        eexists _, _. split; [reflexivity|]. split; [reflexivity|]. rewrite Emodel.
        replace (Nat.eqb tl 0) with true by (symmetry; apply Nat.eqb_eq; exact Htl0).
        replace (Nat.ltb 1 nb) with true by (symmetry; apply Nat.ltb_lt; lia).
        assert (HP : length (concat Cpp) = (nb - 2) * bs) by (rewrite (all_len_concat_length bs) by auto; unfold block in *; lia).
        assert (EB : concat Cs ++ ot = concat Cpp ++ cpen ++ cl ++ ot).
        { rewrite ECs3, concat_app. cbn [concat]. rewrite app_nil_r, <- !app_assoc. reflexivity. }
        assert (EB2 : concat W2 ++ ot = concat Cpp ++ cl ++ cpen ++ ot).
        { rewrite EW2, concat_app. cbn [concat]. rewrite app_nil_r, <- !app_assoc. reflexivity. }
        rewrite EB, EB2. unfold swap_last_two. fold bs.
        replace ((nb - 1) * bs) with ((nb - 2) * bs + bs) by nia.
        unfold mget_out, slice. cbn [m_out]. rewrite !app_length, HP, Hcpen, Hcl.
        replace (Nat.leb ((nb - 2) * bs) ((nb - 2) * bs + bs)) with true by (symmetry; apply Nat.leb_le; lia).
        replace (Nat.leb ((nb - 2) * bs + bs) ((nb - 2) * bs + (bs + (bs + length ot)))) with true by (symmetry; apply Nat.leb_le; lia).
        replace (Nat.leb ((nb - 2) * bs + bs) ((nb - 2) * bs + bs + bs)) with true by (symmetry; apply Nat.leb_le; lia).
        replace (Nat.leb ((nb - 2) * bs + bs + bs) ((nb - 2) * bs + (bs + (bs + length ot)))) with true by (symmetry; apply Nat.leb_le; lia).
        cbn [andb obind].
        replace ((nb - 2) * bs + bs - (nb - 2) * bs) with bs by lia. replace ((nb - 2) * bs + bs + bs - ((nb - 2) * bs + bs)) with bs by lia.
        assert (R1 : firstn bs (skipn ((nb - 2) * bs + bs) (concat Cpp ++ cpen ++ cl ++ ot)) = cl).
        { rewrite <- HP. rewrite skipn_app, skipn_all2 by lia. replace (length (concat Cpp) + bs - length (concat Cpp)) with bs by lia.
          cbn [app]. rewrite <- Hcpen, skipn_app_exact by reflexivity. rewrite Hcpen, <- Hcl, firstn_app_exact by reflexivity. reflexivity. }
        assert (R2 : firstn bs (skipn ((nb - 2) * bs) (concat Cpp ++ cpen ++ cl ++ ot)) = cpen).
        { rewrite <- HP, skipn_app_exact by reflexivity. rewrite <- Hcpen, firstn_app_exact by reflexivity. reflexivity. }
        rewrite R1, R2. unfold mput_out at 1. cbn [m_al m_in m_out]. rewrite !app_length, HP, Hcpen, Hcl.
        replace (Nat.leb ((nb - 2) * bs + bs) ((nb - 2) * bs + (bs + (bs + length ot)))) with true by (symmetry; apply Nat.leb_le; lia).
        cbn [obind]. unfold mput_out. cbn [m_al m_in m_out].
        assert (S1 : splice (concat Cpp ++ cpen ++ cl ++ ot) ((nb - 2) * bs) cl = concat Cpp ++ cl ++ cl ++ ot).
        { unfold splice. rewrite <- HP, firstn_app_exact by reflexivity. rewrite skipn_app, skipn_all2 by lia.
          replace (length (concat Cpp) + length cl - length (concat Cpp)) with (length cpen) by lia. cbn [app]. rewrite skipn_app_exact by reflexivity. reflexivity. }
        rewrite S1, !app_length, HP, Hcl, Hcpen.
        replace (Nat.leb ((nb - 2) * bs + bs + bs) ((nb - 2) * bs + (bs + (bs + length ot)))) with true by (symmetry; apply Nat.leb_le; lia).
        do 2 f_equal. unfold splice. rewrite Hcpen.
        replace ((nb - 2) * bs + bs) with (length (concat Cpp ++ cl)) by (rewrite app_length; lia).
        rewrite (app_assoc (concat Cpp) cl), firstn_app_exact by reflexivity. rewrite <- app_assoc. f_equal. f_equal. f_equal.
        rewrite skipn_app, skipn_all2 by lia. replace (length (concat Cpp ++ cl) + bs - length (concat Cpp ++ cl)) with (length cl) by lia.
        cbn [app]. rewrite skipn_app_exact by reflexivity. reflexivity.
    - replace (len_eq tl 0) with false by (symmetry; apply len_eq_false; exact Htl0).
      match goal with |- context [as_data ?e (RV (VBoolV ?b))] => change (as_data e (RV (VBoolV b))) with (Some (VBoolV b)) end. cbv beta iota.
      unfold run_block.
      assert (Ecl : forall ot', cells_of bs al (firstn (nb * bs) (skipn 0 i)) (firstn (nb * bs) (skipn 0 (concat Cs ++ ot'))) = map2 (mkcell al) ib Cs).
      { intros ot'. subst i. cbn [skipn]. Transparent cells_of. unfold cells_of. Opaque cells_of.
        rewrite <- Hci at 1. rewrite <- Hol. rewrite !firstn_app_exact by reflexivity. rewrite !(chunks_blocks_only C) by auto. reflexivity. }
      assert (Erd : forall ot', map rd_out (cells_of bs al (firstn (nb * bs) (skipn 0 i)) (firstn (nb * bs) (skipn 0 (concat Cs ++ ot')))) = Cs).
      { intros ot'. rewrite Ecl. apply map_rd_out_mkcell. lia. }
      destruct (exists_last (l := Cs)) as (Cp & cl & ECp). { intros E0; rewrite E0 in HCl; cbn in HCl; lia. }
      assert (Hcp : length Cp = nb - 1) by (rewrite ECp, app_length in HCl; cbn in HCl; lia).
      assert (Hcl : length cl = bs) by (rewrite ECp in HCa; apply Forall_app in HCa; destruct HCa as [_ Hx]; inversion Hx; auto).
      assert (H1 : in_range 0 (length (map rd_out (cells_of bs al (firstn (nb * bs) (skipn 0 i)) (firstn (nb * bs) (skipn 0 (concat Cs ++ ot)))))) = true).
      { apply in_range_true. rewrite Erd. unfold block in *. lia. }
      unfold bs in H1.
      run_prefix 1. fold bs. rewrite Erd. rewrite HCl.
      replace (in_range 0 nb) with true by (symmetry; apply in_range_true; lia). cbv beta iota.
      run_prefix 2. fold bs. rewrite (ET ot), (firstn_all2 ot) by lia. rewrite <- Etl.
      run_prefix 1. fold bs. rewrite ?(ET ot), ?EI, ?(firstn_all2 ot) by lia. rewrite <- ?Etl.
      repeat ok_check. fold bs. rewrite ?(ET ot), ?EI, ?(firstn_all2 ot) by lia. rewrite <- ?Etl.
      remember (if al then ot else it) as tin eqn:Etin.
      assert (Htin : length tin = tl) by (subst tin; destruct al; lia).
      repeat ok_check.
      assert (Eblk : MirSem.splice 0 (tl - 0) tin (zeros bs) = tin ++ zeros (bs - tl)).
      { unfold MirSem.splice. cbn [firstn app Nat.add]. f_equal. unfold zeros. rewrite skipn_repeat_l. f_equal. lia. }
      rewrite Eblk.
      assert (Enth : nth (nb - 1) Cs [] = cl).
      { rewrite ECp, <- Hcp, app_nth2, Nat.sub_diag by lia. reflexivity. }
      run_prefix 1. fold bs. unfold block in *. rewrite ?Erd, ?Enth, ?HCl.
      assert (Emix : MirSem.splice tl (bs - tl) (firstn (bs - tl) (skipn tl cl)) (tin ++ zeros (bs - tl)) = mix tin cl).
      { unfold MirSem.splice, mix. rewrite <- Htin at 1. rewrite firstn_app_exact by reflexivity. f_equal.
        rewrite (skipn_all2 (tin ++ zeros (bs - tl))) by (rewrite app_length, zeros_length; lia). rewrite app_nil_r, Htin.
        apply firstn_all2. rewrite skipn_length. lia. }
      repeat first [ok_check | progress (rewrite ?Erd, ?Enth, ?HCl, ?Hcl, ?app_length, ?zeros_length, ?Htin)].
      replace (tl + (bs - tl) - tl) with (bs - tl) by lia. rewrite Emix.
      unfold bs. run_prefix 1. fold bs. unfold block in *.
      repeat first [ok_check | progress (rewrite ?Erd, ?Enth, ?HCl, ?Hcl, ?app_length, ?zeros_length, ?Htin, ?(ET ot), ?(firstn_all2 ot) by lia)].
      assert (Eo2 : MirSem.splice (nb * bs) tl (firstn (tl - 0) (skipn 0 cl)) (concat Cs ++ ot) = concat Cs ++ firstn tl cl).
      { cbn [skipn]. rewrite Nat.sub_0_r. unfold MirSem.splice. rewrite <- Hol at 1. rewrite firstn_app_exact by reflexivity.
        rewrite skipn_all2 by (rewrite app_length; lia). rewrite app_nil_r. reflexivity. }
      rewrite Eo2.
      unfold bs. run_prefix 1. fold bs.
      match goal with |- context [VBlk (c_D C ?x)] => remember (c_D C x) as cb eqn:Ecb end.
      assert (Hcb : length cb = bs).
      { subst cb; apply D_len. unfold mix. rewrite app_length, skipn_length. lia. }
      run_rest. fold bs. unfold block in *.
      assert (Eup : upd_nth (nb - 1) cb Cs = Cp ++ [cb]).
      { rewrite ECp, <- Hcp. clear. induction Cp as [|x Cp IH]; cbn [length upd_nth app]; [reflexivity|]. f_equal. exact IH. }
      assert (Hcpl : length (concat Cp) = (nb - 1) * bs).
      { rewrite (all_len_concat_length bs). - unfold block in *; lia. - rewrite ECp in HCa. apply Forall_app in HCa. tauto. }
      assert (Hup : length (concat (Cp ++ [cb])) = nb * bs).
      { rewrite concat_app, app_length, Hcpl. cbn [concat]. rewrite app_nil_r, Hcb. nia. }
      assert (Eow : outs_of (map2 wr_out (map2 (mkcell al) ib Cs) (Cp ++ [cb])) = concat (Cp ++ [cb])).
      { apply outs_wr_mkcell; [lia|]. rewrite app_length. cbn [length]. lia. }
      assert (Eo3 : MirSem.splice 0 (nb * bs) (concat (Cp ++ [cb])) (concat Cs ++ firstn tl cl) = concat (Cp ++ [cb]) ++ firstn tl cl).
      { apply seg_write_head. lia. }
      unfold block in *.
      repeat first [ok_check | progress (cbn [length]) | progress (rewrite ?Erd, ?Ecl, ?Enth, ?HCl, ?Hcl, ?app_length, ?zeros_length, ?Htin, ?Eup,
         ?Eow, ?map2_length, ?Hup, <- ?Enb, ?Nat.min_id, ?Hcp, ?Eo3)].
      eexists _, _. split; [reflexivity|]. split; [reflexivity|]. rewrite Emodel.
      replace (Nat.eqb tl 0) with false by (symmetry; apply Nat.eqb_neq; lia).
      unfold ecb_steal. fold bs. unfold usub. replace (Nat.leb 1 nb) with true by (symmetry; apply Nat.leb_le; lia). cbn [obind].
      assert (Ego : mget_out (mkmem al i (concat Cs ++ ot)) ((nb - 1) * bs) bs = Ok cl).
      { unfold mget_out, slice. cbn [m_out]. rewrite HL1.
        replace (Nat.leb ((nb - 1) * bs) ((nb - 1) * bs + bs)) with true by (symmetry; apply Nat.leb_le; lia).
        replace (Nat.leb ((nb - 1) * bs + bs) (nb * bs + tl)) with true by (symmetry; apply Nat.leb_le; nia). cbn [andb].
        replace ((nb - 1) * bs + bs - (nb - 1) * bs) with bs by lia.
        rewrite ECp, concat_app, <- app_assoc, <- Hcpl, skipn_app_exact by reflexivity. cbn [concat]. rewrite app_nil_r, <- Hcl, firstn_app_exact by reflexivity. reflexivity. }
      assert (Eg : mget_in (mkmem al i (concat Cs ++ ot)) (nb * bs) tl = Ok tin).
      { unfold mget_in, msrc, slice. cbn [m_al m_in m_out]. subst tin.
        replace (nb * bs + tl - nb * bs) with tl by lia.
        destruct al.
        - rewrite HL1. replace (Nat.leb (nb * bs) (nb * bs + tl)) with true by (symmetry; apply Nat.leb_le; lia).
          rewrite Nat.leb_refl. cbn [andb]. rewrite (ET ot), firstn_all2 by lia. reflexivity.
        - rewrite HLi. replace (Nat.leb (nb * bs) (nb * bs + tl)) with true by (symmetry; apply Nat.leb_le; lia).
          rewrite Nat.leb_refl. cbn [andb]. rewrite EI. reflexivity. }
      rewrite Ego. cbn [obind]. rewrite Eg. cbn [obind]. unfold mix. rewrite ?Htin. rewrite <- Ecb.
      unfold mput_out at 1. cbn [m_al m_in m_out]. rewrite HL1, firstn_length, Hcl.
      replace (Nat.leb (nb * bs + Nat.min tl bs) (nb * bs + tl)) with true by (symmetry; apply Nat.leb_le; lia). cbn [obind].
      unfold mput_out. cbn [m_al m_in m_out].
      assert (Es1 : splice (concat Cs ++ ot) (nb * bs) (firstn tl cl) = concat Cs ++ firstn tl cl).
      { unfold splice. rewrite <- Hol at 1. rewrite firstn_app_exact by reflexivity. rewrite skipn_all2 by (rewrite app_length, firstn_length; lia).
        rewrite app_nil_r. reflexivity. }
      rewrite Es1, app_length, Hol, firstn_length, Hcl, Hcb.
      replace (Nat.leb ((nb - 1) * bs + bs) (nb * bs + Nat.min tl bs)) with true by (symmetry; apply Nat.leb_le; nia). do 2 f_equal.
      unfold splice. rewrite Hcb.
      assert (ECs2 : concat Cs ++ firstn tl cl = concat Cp ++ cl ++ firstn tl cl).
      { rewrite ECp, concat_app. cbn [concat]. rewrite app_nil_r, <- app_assoc. reflexivity. }
      rewrite ECs2, <- Hcpl, firstn_app_exact by reflexivity.
      rewrite skipn_app, skipn_all2, Hcpl by lia. replace ((nb - 1) * bs + bs - (nb - 1) * bs) with bs by lia.
      rewrite <- Hcl, skipn_app_exact by reflexivity. cbn [app].
      rewrite concat_app. cbn [concat]. rewrite app_nil_r, <- app_assoc. reflexivity.
  Qed.
End EcbCs3Dec.

(* ---- C01 over the translated source: running the translated EcbCs3 encryption closure in place on a message and then
   the translated decryption closure in place on what it left returns the message (D inverse to E on blocks).
   Composition of the two closure ties with Cts_dec_proofs.cts_roundtrip_composed (= Props/C01, C01_cts). *)
Section EcbCs3RoundTrip.
  Variable C : cipher.
  Let bs := c_bs C.
  Hypothesis Cwf : cipher_wf C.
  Hypothesis DE : DE_id C.
  Let Xe := bctx C [("ecb_enc", FSem (ecb_enc_sem C)); ("core::mem::swap", FSem swap_sem)]
                   [("into_chunks::BS", VNat bs); ("Block::<B>::default()", VBlk (zeros bs)); ("B::BlockSize::USIZE", VNat bs)].
  Let Xd := bctx C [("ecb_dec", FSem (ecb_dec_sem C)); ("core::mem::swap", FSem swap_sem)]
                   [("into_chunks::BS", VNat bs); ("Block::<B>::default()", VBlk (zeros bs)); ("B::BlockSize::USIZE", VNat bs)].

  Theorem C01_ecb_cs3_source_inplace (blocks : list (list N)) (tail : list N) :
    all_len bs blocks -> 1 <= length blocks -> length tail < bs ->
    let M := concat blocks ++ tail in
    exists e1 c e2,
      run_body Xe (eenv true true M M) cts__ecb_cs3__BlockCipherEncClosure__Closure__call = Some (e1, VUnit)
      /\ lookup "buf" e1 = Some (VBuf true M c) /\ length c = length M
      /\ run_body Xd (eenv false true c c) cts__ecb_cs3__BlockCipherDecClosure__Closure__call = Some (e2, VUnit)
      /\ lookup "buf" e2 = Some (VBuf true c M).
  Proof.
    intros Hb Hn Ht M.
    destruct Cwf as (bs_pos & Hw & E_len & D_len).
    destruct (tie_cts__ecb_cs3__BlockCipherEncClosure__Closure__call C bs_pos E_len true blocks tail blocks tail) as (e1 & c & Hrun1 & Hbuf1 & Hmod1); auto.
    fold M in Hrun1, Hbuf1, Hmod1.
    assert (Hm : msg_mem C (mkmem true M M) blocks tail) by (constructor; auto; split; auto).
    assert (Hwf2 : mwf (mkmem true c c)) by (split; auto).
    destruct (cts_roundtrip_composed C (conj bs_pos (conj Hw (conj E_len D_len))) DE EcbCs3 (zeros bs) (mkmem true M M) blocks tail (mkmem true c c)
                (zeros_length _) Hm Hwf2) as (c0 & Ec0 & Hlen & Hdec).
    cbn [cts_run] in Ec0, Hdec. rewrite Hmod1 in Ec0. injection Ec0 as <-. unfold mlen in Hlen. cbn [m_out] in Hlen.
    destruct (Hdec eq_refl) as (p & Ep & Hp).
    destruct (chunks_decompose bs c bs_pos) as (bl & t & Ec & Hbl & Htl & _).
    assert (Hbn : 1 <= length bl).
    { assert (HL : length c = length bl * bs + length t) by (rewrite Ec at 1; rewrite app_length, (all_len_concat_length bs) by auto; reflexivity).
      assert (HM : length M = length blocks * bs + length tail) by (unfold M; rewrite app_length, (all_len_concat_length bs) by auto; reflexivity).
      destruct bl; [cbn [length] in HL; fold bs in Htl; nia | cbn [length]; lia]. }
    destruct (tie_cts__ecb_cs3__BlockCipherDecClosure__Closure__call C bs_pos D_len true bl t bl t) as (e2 & o2 & Hrun2 & Hbuf2 & Hmod2); auto.
    rewrite <- Ec in Hrun2, Hbuf2, Hmod2. rewrite Hmod2 in Ep. injection Ep as <-. cbn [m_out] in Hp. subst o2.
    exists e1, c, e2. repeat split; auto.
  Qed.
End EcbCs3RoundTrip.
