(* Tie_belt_ctr.v -- the translated bodies of belt-ctr/src/lib.rs compute what Belt.v computes: s = le128(E(iv)),
   pre-increment then encrypt, the parallel variant for every batch width, position arithmetic mod 2^128,
   iv_state = D(le_bytes s). *)
From BM Require Import Tie.TieLib Belt.
From BMGen Require Import Src_belt_ctr.
Local Open Scope string_scope.
Local Open Scope list_scope.

(* the batch of counter blocks after k iterations of `for block in tmp.iter_mut() { s += 1; *block = le(s) }` *)
Fixpoint belt_tmp_upto (k : nat) (s : N) : N * list (list N) :=
  match k with
  | O => (s, [])
  | S k' => let '(s1, bl) := belt_tmp_upto k' s in
            let s2 := wrap 128 (s1 + 1) in (s2, bl ++ [le_encode 16 s2])
  end.

Lemma belt_tmp_snoc k s : belt_tmp k s = belt_tmp_upto k s.
Proof.
  revert s. induction k as [|k IH]; intros s; [reflexivity|].
  (* belt_tmp conses at the front, belt_tmp_upto at the back: both enumerate s+1 .. s+k *)
  assert (G : forall k s, belt_tmp (S k) s =
              let '(s1, bl) := belt_tmp k s in let s2 := wrap 128 (s1 + 1) in (s2, bl ++ [le_encode 16 s2])).
  { clear. induction k as [|k IH]; intros s; [reflexivity|].
    change (belt_tmp (S (S k)) s) with
      (let s1 := wrap 128 (s + 1) in let '(s2, bl) := belt_tmp (S k) s1 in (s2, le_encode 16 s1 :: bl)).
    cbv zeta. rewrite IH. cbn [belt_tmp]. destruct (belt_tmp k (wrap 128 (s + 1))) as [s2 bl]. reflexivity. }
  rewrite G, IH. reflexivity.
Qed.

Lemma belt_tmp_upto_length k s : length (snd (belt_tmp_upto k s)) = k.
Proof. induction k as [|k IH]; [reflexivity|]. cbn [belt_tmp_upto]. destruct (belt_tmp_upto k s) as [s1 bl].
  cbn [snd] in *. rewrite app_length, IH. simpl. lia. Qed.

Section Belt.
  Variable C : cipher.
  Definition be_self (s : N) : val := VStruct "Backend" [("s", VInt 128 s); ("cipher_backend", VCipher true false)].
  Definition core_self (st : beltst) (dec : bool) : val :=
    VStruct "BeltCtrCore" [("cipher", VCipher true dec); ("s", VInt 128 (b_s st)); ("s_init", VInt 128 (b_s_init st))].

  Section Single.
  Let X := bctx C [] [("Array::default()", VBlk (zeros 16)); ("u128::MAX", VInt 128 (int_max 128))].

  Lemma tie_belt_gen_ks_block st junk :
    call_fn X belt_ctr__lib__StreamCipherBackend__Backend__gen_ks_block [be_self (b_s st); VBlk junk]
    = let '(st', ks) := belt_gen C st in Some (VUnit, [be_self (b_s st'); VBlk ks]).
  Proof. destruct st as [s s0]. run_fn. reflexivity. Qed.

  Lemma tie_belt_init iv : length (c_E C iv) = 16 ->
    call_fn X belt_ctr__lib__InnerIvInit__BeltCtrCore__inner_iv_init [VCipher true false; VBlk iv]
    = Some (VStruct "Self" [("cipher", VCipher true false); ("s", VInt 128 (b_s (belt_init C iv)));
                            ("s_init", VInt 128 (b_s_init (belt_init C iv)))], [VCipher true false; VBlk iv]).
  Proof. intros H. run_fn. reflexivity. Qed.

  Lemma tie_belt_iv_state st :
    call_fn X belt_ctr__lib__IvState__BeltCtrCore__iv_state [core_self st true]
    = Some (VBlk (belt_iv_state C st), [core_self st true]).
  Proof. destruct st as [s s0]. run_fn. reflexivity. Qed.

  Lemma tie_belt_get_block_pos st : (b_s_init st < pow2 128)%N ->
    call_fn X belt_ctr__lib__StreamCipherSeekCore__BeltCtrCore__get_block_pos [core_self st false]
    = Some (VInt 128 (belt_get_pos st), [core_self st false]).
  Proof. destruct st as [s s0]. cbn [b_s b_s_init]. intros H. run_fn. replace (wrap 128 s0) with s0 by (unfold wrap; rewrite N.mod_small; auto). reflexivity. Qed.

  Lemma tie_belt_set_block_pos st p :
    call_fn X belt_ctr__lib__StreamCipherSeekCore__BeltCtrCore__set_block_pos [core_self st false; VInt 128 p]
    = Some (VUnit, [core_self (belt_set_pos st p) false; VInt 128 p]).
  Proof. destruct st as [s s0]. run_fn. reflexivity. Qed.

  Lemma tie_belt_remaining st : (b_s_init st < pow2 128)%N ->
    call_fn X belt_ctr__lib__StreamCipherCore__BeltCtrCore__remaining_blocks [core_self st false]
    = Some (VOpt (match belt_remaining st with Some r => Some (VInt 64 r) | None => None end), [core_self st false]).
  Proof.
    destruct st as [s s0]. cbn [b_s b_s_init]. intros H. unfold call_fn, call_src. ev_checks.
    replace (wrap 128 s0) with s0 by (unfold wrap; rewrite N.mod_small; auto).
    match goal with |- context [N.leb ?a ?b] =>
      replace (N.leb a b) with true
        by (symmetry; apply N.leb_le; unfold int_max, wrap;
            pose proof (N.mod_upper_bound (s + pow2 128 - s0) (pow2 128) ltac:(unfold pow2; lia)); lia) end.
    evf. reflexivity.
  Qed.
  End Single.

  Lemma upd_nth_app_repeat {A} (l : list A) z x m : 0 < m ->
    upd_nth (length l) x (l ++ repeat z m) = (l ++ [x]) ++ repeat z (m - 1).
  Proof.
    intros Hm. induction l as [|y l IH]; cbn [length app upd_nth].
    - destruct m; [lia|]. cbn [repeat upd_nth Nat.sub]. now rewrite ?Nat.sub_0_r.
    - now rewrite IH.
  Qed.

  (* the parallel body for a batch of any width w >= 1 *)
  Lemma tie_belt_gen_par_ks_blocks st w zb junk : 1 <= w -> length junk = w ->
    let X := bctx C [] [("ParBlocks::<Self>::default()", VBlks (repeat zb w))] in
    call_fn X belt_ctr__lib__StreamCipherBackend__Backend__gen_par_ks_blocks [be_self (b_s st); VBlks junk]
    = let '(s', tmp) := belt_tmp w (b_s st) in Some (VUnit, [be_self s'; VBlks (map (c_E C) tmp)]).
  Proof.
    destruct st as [s s0]. cbn [b_s]. intros Hw Hj. cbv zeta. unfold call_fn, call_src.
    eval_frame. run_prefix 2. run_prefix 1.
    match goal with |- context [for_each (seq ?a0 ?m) ?body ?e0] =>
      destruct (for_each_seq_inv
        (fun k e => e = [("s", VInt 128 (fst (belt_tmp_upto k s)));
                         ("tmp", VBlks (snd (belt_tmp_upto k s) ++ repeat zb (w - k)));
                         ("blocks", VRef (PVar "$a1")); ("$a1", VBlks junk);
                         ("self", VRef (PVar "$a0")); ("$a0", be_self s)])
        body a0 m e0) as (e' & He & HP)
    end.
    - cbn [belt_tmp_upto fst snd app]. rewrite ?Nat.sub_0_r. Show. reflexivity.
    - intros i e Hi ->. cbn [loopN].
      rewrite repeat_length in Hi.
      assert (Hl := belt_tmp_upto_length i s).
      cbn [belt_tmp_upto].
      destruct (belt_tmp_upto i s) as [si bl] eqn:Ek. cbn [fst snd] in *.
      ev_checks.
      do 2 eexists; split; [reflexivity|].
      rewrite <- Hl at 1. rewrite upd_nth_app_repeat by lia.
      replace (w - i - 1) with (w - S i) by lia. reflexivity.
    - rewrite He, HP. clear He HP. cbv beta iota. rewrite repeat_length.
      replace (0 + w) with w by lia. rewrite Nat.sub_diag. cbn [repeat]. rewrite app_nil_r.
      assert (Hl := belt_tmp_upto_length w s).
      rewrite belt_tmp_snoc. destruct (belt_tmp_upto w s) as [sw bl] eqn:Ek. cbn [fst snd] in *.
      run_rest. evf_l. reflexivity.
  Qed.
End Belt.
