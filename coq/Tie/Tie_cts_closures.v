(* Tie_cts_closures.v -- semantic tie of the closure bodies of cts/src/*_cs*.rs (the code that runs inside
   encrypt_with_backend / decrypt_with_backend) to the byte-granular model of coq/Cts.v.

   The buffer is an InOutBuf<u8> (MirSem.VBuf al in out); `into_chunks` splits it into the whole blocks
   (a view PBlocks, read as cells exactly like Cts.mcells) and the tail (a view PBytes).  The helpers called
   (cbc_enc, xor) are contracts here; they are tied to the source in Tie_cts_helpers.v / Tie_cts_cbcdec.v.
   Every bound check, `usize` subtraction and copy_from_slice length check of the body is discharged, so the
   theorem also says the body does not panic on any message of at least one block. *)
From BM Require Import Tie.TieLib Cts Cts_mem Cts_proofs Cts_spec Cts_cs_proofs Spec Spec_proofs BlockModes_proofs.
From BMGen Require Import Src_cts.
Local Open Scope string_scope.
Local Open Scope list_scope.

Lemma skipn_repeat_l {A} (x : A) k n : skipn k (repeat x n) = repeat x (n - k).
Proof. revert n; induction k as [|k IH]; intros [|n]; cbn [skipn repeat Nat.sub]; auto. Qed.

Lemma msplice_length lo len (s b : list N) : lo + len <= length b -> length s = len -> length (MirSem.splice lo len s b) = length b.
Proof. intros H1 H2. unfold MirSem.splice. rewrite !app_length, firstn_length, skipn_length. lia. Qed.

Section Cs1.
  Variable C : cipher.
  Let bs := c_bs C.
  Hypothesis bs_pos : 0 < bs.
  Hypothesis E_len : forall x, length x = bs -> length (c_E C x) = bs.
  Definition ce_iv iv cs := fst (cts_cbc_enc C iv cs).
  Definition ce_out iv cs := outs_of (snd (cts_cbc_enc C iv cs)).
  Definition ce_cs iv cs := snd (cts_cbc_enc C iv cs).
  Definition cbc_enc_sem (args : list val) : option (val * list val) :=
    match args with
    | [c; VBlk iv; VCells cs] => Some (VUnit, [c; VBlk (ce_iv iv cs); VCells (ce_cs iv cs)])
    | _ => None
    end.
  Let X := bctx C [("cbc_enc", FSem cbc_enc_sem); ("xor", FSem xor_sem)]
                  [("into_chunks::BS", VNat bs); ("Block::<B>::default()", VBlk (zeros bs)); ("B::BlockSize::USIZE", VNat bs)].
  Definition cenv (iv : block) (al : bool) (i o : list N) : env :=
    [("cipher", VCipher true false); ("self", VStruct "Closure" [("iv", VBlk iv); ("buf", VBuf al i o)])].

  Lemma all_len_rd_in_mkcell al (a b : list (list N)) : all_len bs a -> all_len bs b -> length a = length b ->
    all_len bs (map rd_in (map2 (mkcell al) a b)).
  Proof.
    intros Ha. revert b. induction Ha as [|x a Hx _ IH]; intros [|y b] Hb Hl; cbn [map2 map]; try constructor; try discriminate.
    - inversion Hb; subst. unfold rd_in; cbn. destruct al; auto.
    - inversion Hb; subst. apply IH; auto.
  Qed.

  (* the buffer as whole blocks plus a tail, on both sides *)
  Lemma tie_cts__cbc_cs1__BlockCipherEncClosure__Closure__call iv al ib it ob ot :
    length iv = bs -> all_len bs ib -> all_len bs ob -> length ib = length ob -> 1 <= length ib ->
    length it = length ot -> length ot < bs ->
    exists e' o', run_body X (cenv iv al (concat ib ++ it) (concat ob ++ ot)) cts__cbc_cs1__BlockCipherEncClosure__Closure__call = Some (e', VUnit)
      /\ lookup "buf" e' = Some (VBuf al (concat ib ++ it) o')
      /\ cbc_cs1_enc C iv (mkmem al (concat ib ++ it) (concat ob ++ ot)) = Ok (mkmem al (concat ib ++ it) o').
  Proof.
    intros Hiv Hib Hob Hnb Hnb1 Htl Htl2. unfold run_body. unfold block in *.
    remember (length ib) as nb eqn:Enb. remember (length ot) as tl eqn:Etl.
    assert (Hci : length (concat ib) = nb * bs) by (rewrite (all_len_concat_length bs) by auto; lia).
    assert (Hco : length (concat ob) = nb * bs) by (rewrite (all_len_concat_length bs) by auto; lia).
    remember (concat ib ++ it) as i eqn:Ei. remember (concat ob ++ ot) as o eqn:Eo.
    assert (HLi : length i = nb * bs + tl) by (subst i; rewrite app_length; lia).
    assert (HLo : length o = nb * bs + tl) by (subst o; rewrite app_length; lia).
    assert (Hdiv : ndiv (length o) bs = nb).
    { unfold ndiv. rewrite HLo. symmetry. apply (Nat.div_unique _ _ _ tl); lia. }
    assert (F0 : in_range 0 (c_bs C) = true) by (apply in_range_true; fold bs; lia).
    run_prefix 2. fold bs. rewrite Hdiv. replace (length o - nb * bs) with tl by lia.
    (* the bulk CBC part *)
    assert (Ecells : cells_of bs al (firstn (nb * bs) (skipn 0 i)) (firstn (nb * bs) (skipn 0 o)) = map2 (mkcell al) ib ob).
    { cbn [skipn]. subst i o. unfold cells_of. rewrite !firstn_app_exact by lia. rewrite !(chunks_blocks_only C) by auto. reflexivity. }
    pose (cells0 := cells_of bs al (firstn (nb * bs) (skipn 0 i)) (firstn (nb * bs) (skipn 0 o))).
    pose (Cs := cbc_enc_spec (c_E C) iv (map rd_in (map2 (mkcell al) ib ob))).
    assert (Hcl : length (map2 (mkcell al) ib ob) = nb) by (rewrite map2_length; unfold block in *; lia).
    assert (HCl : length Cs = nb) by (unfold Cs; rewrite (cbc_enc_spec_length (c_E C)), map_length; exact Hcl).
    assert (HCa : all_len bs Cs).
    { unfold Cs. apply (cbc_enc_spec_all_len bs (c_E C)); auto. apply all_len_rd_in_mkcell; auto; congruence. }
    assert (Ecbc : cts_cbc_enc C iv cells0 = (cbc_chain iv Cs, map2 wr_out (map2 (mkcell al) ib ob) Cs)).
    { unfold cells0. rewrite Ecells. apply cts_cbc_enc_eq. }
    assert (Eouts0 : outs_of (map2 wr_out (map2 (mkcell al) ib ob) Cs) = concat Cs).
    { unfold outs_of. rewrite map_cout_wr by (rewrite Hcl, HCl; reflexivity). reflexivity. }
    assert (Eouts : outs_of (ce_cs iv cells0) = concat Cs).
    { unfold ce_cs. rewrite Ecbc. cbn [snd]. exact Eouts0. }
    assert (Eiv1 : ce_iv iv cells0 = last Cs iv).
    { unfold ce_iv. rewrite Ecbc. reflexivity. }
    assert (Hol : length (concat Cs) = nb * bs).
    { rewrite (all_len_concat_length bs) by auto. unfold block in *. nia. }
    assert (Hiv1 : length (last Cs iv) = bs).
    { apply all_len_last; [auto | intros E0; rewrite E0 in HCl; cbn in HCl; lia]. }
    assert (Eo1 : MirSem.splice 0 (nb * bs) (concat Cs) o = concat Cs ++ ot).
    { subst o. apply seg_write_head. lia. }
    assert (F1 : fits 0 (nb * bs) (length o) = true) by (apply fits_true; lia).
    assert (F2 : fits 0 (nb * bs) (length i) = true) by (apply fits_true; lia).
    assert (F3 : len_eq (length (concat Cs)) (nb * bs) = true) by (apply len_eq_true; exact Hol).
    unfold bs in F1, F2, F3.
    assert (Emain : mrun C (cts_cbc_enc C) iv (mkmem al i o) 0 nb = Ok (last Cs iv, mkmem al i (concat Cs ++ ot))).
    { unfold mrun. change (mcells C (mkmem al i o) 0 nb) with cells0. rewrite Ecbc. unfold mput_out. cbn [m_out m_al m_in].
      rewrite Eouts0, Hol, HLo. replace (Nat.leb (0 + nb * bs) (nb * bs + tl)) with true by (symmetry; apply Nat.leb_le; lia).
      cbn [obind]. unfold cbc_chain. do 3 f_equal. subst o. unfold splice. cbn [firstn app Nat.add]. rewrite Hol, <- Hco, skipn_app_exact by reflexivity. reflexivity. }
    assert (Emodel : cbc_cs1_enc C iv (mkmem al i o) =
       if Nat.eqb tl 0 then Ok (mkmem al i (concat Cs ++ ot)) else
       do tin <- mget_in (mkmem al i (concat Cs ++ ot)) (nb * bs) tl;
       do pos <- usub (length o) bs;
       mput_out (mkmem al i (concat Cs ++ ot)) pos (c_E C (xorb (tin ++ zeros (bs - tl)) (last Cs iv)))).
    { unfold cbc_cs1_enc. fold bs. unfold mlen. cbn [m_out].
      assert (Hd : length o / bs = nb) by (rewrite HLo; symmetry; apply (Nat.div_unique _ _ _ tl); lia).
      assert (Hm : length o mod bs = tl) by (rewrite HLo; symmetry; apply (Nat.mod_unique _ _ nb); lia).
      rewrite Hd, Hm. replace (Nat.ltb (length o) bs) with false by (symmetry; apply Nat.ltb_ge; nia).
      rewrite Emain. cbn [obind]. reflexivity. }
    clearbody Cs.
    Opaque ce_iv ce_cs cells_of outs_of.
    run_prefix 1.
    match goal with |- context [outs_of (ce_cs ?a ?b)] => replace (outs_of (ce_cs a b)) with (concat Cs) by (symmetry; exact Eouts) end.
    match goal with |- context [ce_iv ?a ?b] => replace (ce_iv a b) with (last Cs iv) by (symmetry; exact Eiv1) end.
    match goal with |- context [len_eq ?a ?b] => replace (len_eq a b) with true by (symmetry; exact F3) end. cbv beta iota.
    match goal with |- context [MirSem.splice ?a ?b ?c ?d] => replace (MirSem.splice a b c d) with (concat Cs ++ ot) by (symmetry; exact Eo1) end.
    destruct (Nat.eq_dec tl 0) as [Htl0|Htl0].
    - (* whole blocks only *)
      assert (G1 : fits (nb * bs) tl (length (concat Cs ++ ot)) = true) by (apply fits_true; rewrite app_length; lia).
      assert (G2 : fits (nb * bs) tl (length i) = true) by (apply fits_true; lia).
      unfold bs in G1, G2.
      run_prefix 1.
      eexists _, _. split; [reflexivity|]. split; [reflexivity|]. rewrite Emodel.
      replace (Nat.eqb tl 0) with true by (symmetry; apply Nat.eqb_eq; exact Htl0). reflexivity.
    - assert (G1 : fits (nb * bs) tl (length (concat Cs ++ ot)) = true) by (apply fits_true; rewrite app_length; lia).
      assert (G2 : fits (nb * bs) tl (length i) = true) by (apply fits_true; lia).
      assert (G3 : len_eq (length (firstn tl (skipn (nb * bs) (concat Cs ++ ot)))) 0 = false).
      { apply len_eq_false. rewrite <- Hol, skipn_app_exact by reflexivity. rewrite firstn_all2 by (lia). lia. }
      unfold bs in G1, G2, G3.
      run_prefix 1.
      assert (G4 : fits 0 tl bs = true) by (apply fits_true; lia).
      assert (G5 : fits 0 tl (length (zeros bs)) = true) by (apply fits_true; rewrite zeros_length; lia).
      assert (ET : firstn tl (skipn (nb * bs) (concat Cs ++ ot)) = ot).
      { rewrite <- Hol, skipn_app_exact by reflexivity. apply firstn_all2. lia. }
      assert (EI : firstn tl (skipn (nb * bs) i) = it).
      { subst i. rewrite <- Hci, skipn_app_exact by reflexivity. apply firstn_all2. lia. }
      assert (G6 : le_ok (length (firstn tl (skipn (nb * bs) (concat Cs ++ ot)))) (length (zeros bs)) = true).
      { apply le_ok_true. rewrite ET, zeros_length. lia. }
      assert (G7 : fits 0 (length (firstn tl (skipn (nb * bs) (concat Cs ++ ot))) - 0) (length (zeros bs)) = true).
      { apply fits_true. rewrite ET, zeros_length. lia. }
      assert (G8 : len_eq (length (if al then firstn tl (skipn (nb * bs) (concat Cs ++ ot)) else firstn tl (skipn (nb * bs) i)))
                          (length (firstn tl (skipn (nb * bs) (concat Cs ++ ot))) - 0) = true).
      { apply len_eq_true. rewrite ET, EI. destruct al; lia. }
      unfold bs in G4, G5, G6, G7, G8.
      run_prefix 2. unfold bs in ET, EI. rewrite ET, EI. fold bs.
      assert (Eblk : MirSem.splice 0 (length ot - 0) (if al then ot else it) (zeros bs) = (if al then ot else it) ++ zeros (bs - tl)).
      { unfold MirSem.splice. cbn [firstn app Nat.add]. f_equal. unfold zeros. rewrite skipn_repeat_l. f_equal. lia. }
      rewrite Eblk.
      remember ((if al then ot else it) ++ zeros (bs - tl)) as blk eqn:Eb.
      assert (Hblk : length blk = bs) by (subst blk; rewrite app_length, zeros_length; destruct al; lia).
      unfold bs. run_prefix 2.
      match goal with |- context [VBlk (c_E C ?x)] => remember (c_E C x) as cb eqn:Ecb end.
      assert (Hcb : length cb = bs) by (subst cb; apply E_len; rewrite xor_into_length; exact Hblk).
      assert (J1 : le_ok bs (length (concat Cs ++ ot)) = true) by (apply le_ok_true; rewrite app_length; nia).
      unfold bs in J1.
      run_prefix 1.
      assert (HL1 : length (concat Cs ++ ot) = nb * bs + tl) by (rewrite app_length; lia).
      assert (J2 : fits (length (concat Cs ++ ot) - bs) (length (concat Cs ++ ot) - (length (concat Cs ++ ot) - bs)) (length (concat Cs ++ ot)) = true)
        by (apply fits_true; nia).
      assert (J3 : len_eq (length cb) (length (concat Cs ++ ot) - (length (concat Cs ++ ot) - bs)) = true)
        by (apply len_eq_true; nia).
      assert (J4 : len_eq (length (MirSem.splice (length (concat Cs ++ ot) - bs) (length (concat Cs ++ ot) - (length (concat Cs ++ ot) - bs))
                     cb (concat Cs ++ ot))) (length (concat Cs ++ ot)) = true).
      { apply len_eq_true. apply msplice_length; nia. }
      unfold bs in J2, J3, J4.
      run_rest.
      eexists _, _. split; [reflexivity|]. split; [reflexivity|]. rewrite Emodel.
      replace (Nat.eqb tl 0) with false by (symmetry; apply Nat.eqb_neq; lia).
      assert (Eg : mget_in (mkmem al i (concat Cs ++ ot)) (nb * bs) tl = Ok (if al then ot else it)).
      { unfold mget_in, msrc, slice. cbn [m_al m_in m_out].
        replace (nb * bs + tl - nb * bs) with tl by lia.
        destruct al.
        - rewrite HL1. replace (Nat.leb (nb * bs) (nb * bs + tl)) with true by (symmetry; apply Nat.leb_le; lia).
          rewrite Nat.leb_refl. cbn [andb]. fold bs in ET. rewrite ET. reflexivity.
        - rewrite HLi. replace (Nat.leb (nb * bs) (nb * bs + tl)) with true by (symmetry; apply Nat.leb_le; lia).
          rewrite Nat.leb_refl. cbn [andb]. fold bs in EI. rewrite EI. reflexivity. }
      rewrite Eg. cbn [obind]. unfold usub. replace (Nat.leb bs (length o)) with true by (symmetry; apply Nat.leb_le; nia).
      cbn [obind]. unfold mput_out. cbn [m_al m_in m_out].
      rewrite <- Eb, <- (xor_into_eq blk (last Cs iv)) by lia. unfold block in *. rewrite <- Ecb, Hcb.
      replace (Nat.leb (length o - bs + bs) (length (concat Cs ++ ot))) with true by (symmetry; apply Nat.leb_le; nia).
      do 2 f_equal. unfold splice, MirSem.splice. fold bs. rewrite Hcb, HL1, HLo.
      replace (nb * bs + tl - (nb * bs + tl - bs)) with bs by nia. reflexivity.
  Qed.

  (* ---- C05 over the translated source: the bytes the CbcCs1 encryption closure of cts/src/cbc_cs1.rs leaves in the
     buffer are the NIST SP 800-38A Addendum CBC-CS1 ciphertext of the message, buffer-to-buffer (any prior contents of
     the output buffer) and in place -- the tie theorem above composed with Cts_cs_proofs.cbc_cs1_enc_ok (= Props/C05). *)
  Theorem C05_cbc_cs1_enc_source_b2b iv (blocks : list (list N)) (tail : list N) (ob : list (list N)) (ot : list N) :
    cipher_wf C -> length iv = bs -> all_len bs blocks -> 1 <= length blocks -> length tail < bs ->
    all_len bs ob -> length ob = length blocks -> length ot = length tail ->
    exists e', run_body X (cenv iv false (concat blocks ++ tail) (concat ob ++ ot)) cts__cbc_cs1__BlockCipherEncClosure__Closure__call = Some (e', VUnit)
      /\ lookup "buf" e' = Some (VBuf false (concat blocks ++ tail) (cbc_cs1_spec bs (c_E C) iv blocks tail)).
  Proof.
    intros Cwf Hiv Hb Hn Ht Hob Hobl Hotl.
    destruct (tie_cts__cbc_cs1__BlockCipherEncClosure__Closure__call iv false blocks tail ob ot) as (e' & o' & Hrun & Hbuf & Hmod); auto; try lia.
    assert (Hm : msg_mem C (mkmem false (concat blocks ++ tail) (concat ob ++ ot)) blocks tail).
    { constructor; auto.
      - split; [|discriminate]. cbn [m_in m_out]. rewrite !app_length, !(all_len_concat_length bs) by auto. lia. }
    destruct (cbc_cs1_enc_ok C Cwf iv _ blocks tail Hiv Hm) as (m' & E1 & E2).
    fold bs in E2. rewrite Hmod in E1. injection E1 as <-. cbn [m_out] in E2. subst o'.
    exists e'. split; [exact Hrun | exact Hbuf].
  Qed.

  Theorem C05_cbc_cs1_enc_source_inplace iv (blocks : list (list N)) (tail : list N) :
    cipher_wf C -> length iv = bs -> all_len bs blocks -> 1 <= length blocks -> length tail < bs ->
    exists e', run_body X (cenv iv true (concat blocks ++ tail) (concat blocks ++ tail)) cts__cbc_cs1__BlockCipherEncClosure__Closure__call = Some (e', VUnit)
      /\ lookup "buf" e' = Some (VBuf true (concat blocks ++ tail) (cbc_cs1_spec bs (c_E C) iv blocks tail)).
  Proof.
    intros Cwf Hiv Hb Hn Ht.
    destruct (tie_cts__cbc_cs1__BlockCipherEncClosure__Closure__call iv true blocks tail blocks tail) as (e' & o' & Hrun & Hbuf & Hmod); auto; try lia.
    assert (Hm : msg_mem C (mkmem true (concat blocks ++ tail) (concat blocks ++ tail)) blocks tail).
    { constructor; auto. split; auto. }
    destruct (cbc_cs1_enc_ok C Cwf iv _ blocks tail Hiv Hm) as (m' & E1 & E2).
    fold bs in E2. rewrite Hmod in E1. injection E1 as <-. cbn [m_out] in E2. subst o'.
    exists e'. split; [exact Hrun | exact Hbuf].
  Qed.
End Cs1.
