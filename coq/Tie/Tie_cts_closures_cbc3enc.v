(* Tie_cts_closures_cbc3enc.v -- semantic tie of a closure body of cts/src/*_cs*.rs (the code that runs inside
   encrypt_with_backend / decrypt_with_backend) to the byte-granular model of coq/Cts.v; see Tie_cts_closures_cbc1.v.
   The body ends in an `if`: MirLemmas.run_last_if evaluates the condition and the proof steps through the branch taken. *)
From BM Require Import Tie.TieLib Tie.ClosureLib Cts Cts_mem Cts_proofs Cts_spec Cts_cs_proofs Spec Spec_proofs BlockModes_proofs.
From BMGen Require Import Src_cts.
Local Open Scope string_scope.
Local Open Scope list_scope.

Section CbcCs3Enc.
  Variable C : cipher.
  Let bs := c_bs C.
  Hypothesis bs_pos : 0 < bs.
  Hypothesis E_len : forall x, length x = bs -> length (c_E C x) = bs.
  Let X := bctx C [("cbc_enc", FSem (cbc_enc_sem C)); ("xor", FSem xor_sem); ("core::mem::replace", FSem replace_sem); ("core::mem::swap", FSem swap_sem)]
                  [("into_chunks::BS", VNat bs); ("Block::<B>::default()", VBlk (zeros bs)); ("B::BlockSize::USIZE", VNat bs)].

  Lemma tie_cts__cbc_cs3__BlockCipherEncClosure__Closure__call iv al ib it ob ot :
    length iv = bs -> all_len bs ib -> all_len bs ob -> length ib = length ob -> 1 <= length ib ->
    length it = length ot -> length ot < bs ->
    exists e' o', run_body X (cenv true iv al (concat ib ++ it) (concat ob ++ ot)) cts__cbc_cs3__BlockCipherEncClosure__Closure__call = Some (e', VUnit)
      /\ lookup "buf" e' = Some (VBuf al (concat ib ++ it) o')
      /\ cbc_cs3_enc C iv (mkmem al (concat ib ++ it) (concat ob ++ ot)) = Ok (mkmem al (concat ib ++ it) o').
  Proof.
    intros Hiv Hib Hob Hnb Hnb1 Htl Htl2. unfold run_body. unfold block in *.
    remember (length ib) as nb eqn:Enb.
    destruct (bulkS C bs_pos (cts_cbc_enc C) (fun iv bl => cbc_chain iv (cbc_enc_spec (c_E C) iv bl)) (fun iv bl => cbc_enc_spec (c_E C) iv bl)
               (cts_cbc_enc_eq C) iv al ib it ob ot nb
               (fun bl H => conj (cbc_enc_spec_length (c_E C) iv bl) (cbc_enc_spec_all_len bs (c_E C) E_len iv bl Hiv H))
               Hib Hob (eq_sym Enb) (eq_sym Hnb) Htl)
      as (Ecells & HCl & HCa & Ecbc & Eouts & Emain).
    remember (length ot) as tl eqn:Etl.
    fold bs in Ecells, HCl, HCa, Ecbc, Eouts, Emain.
    remember (cbc_enc_spec (c_E C) iv (map rd_in (map2 (mkcell al) ib ob))) as Cs eqn:ECs.
    assert (Hci : length (concat ib) = nb * bs) by (rewrite (all_len_concat_length bs) by auto; lia).
    assert (Hco : length (concat ob) = nb * bs) by (rewrite (all_len_concat_length bs) by auto; lia).
    remember (concat ib ++ it) as i eqn:Ei. remember (concat ob ++ ot) as o eqn:Eo.
    assert (HLi : length i = nb * bs + tl) by (subst i; rewrite app_length; lia).
    assert (HLo : length o = nb * bs + tl) by (subst o; rewrite app_length; lia).
    assert (Hdiv : ndiv (length o) bs = nb).
    { unfold ndiv. rewrite HLo. symmetry. apply (Nat.div_unique _ _ _ tl); lia. }
    assert (F0 : in_range 0 (c_bs C) = true) by (apply in_range_true; fold bs; lia).
    run_prefix 2. fold bs. rewrite Hdiv. replace (length o - nb * bs) with tl by lia.
    remember (cells_of bs al (firstn (nb * bs) (skipn 0 i)) (firstn (nb * bs) (skipn 0 o))) as cells0 eqn:Ec0.
    assert (Eouts' : outs_of (ce_cs C iv cells0) = concat Cs) by exact Eouts.
    assert (Eiv1 : ce_iv C iv cells0 = last Cs iv).
    { unfold ce_iv. rewrite Ecbc. reflexivity. }
    assert (Hol : length (concat Cs) = nb * bs).
    { rewrite (all_len_concat_length bs) by auto. unfold block in *. nia. }
    assert (Hiv1 : length (last Cs iv) = bs).
    { apply all_len_last; [auto | intros E0; rewrite E0 in HCl; cbn in HCl; lia]. }
    assert (Eo1 : MirSem.splice 0 (nb * bs) (concat Cs) o = concat Cs ++ ot).
    { subst o. apply seg_write_head. lia. }
    assert (F1 : fits 0 (nb * bs) (length o) = true) by (apply fits_true; lia).
    assert (F2 : fits 0 (nb * bs) (length i) = true) by (apply fits_true; lia).
    assert (F3 : len_eq (length (concat Cs)) (nb * bs) = true) by (apply len_eq_true; exact Hol).
    assert (Emodel : cbc_cs3_enc C iv (mkmem al i o) =
       if Nat.eqb tl 0 then (if Nat.ltb 1 nb then swap_last_two C (mkmem al i (concat Cs ++ ot)) nb else Ok (mkmem al i (concat Cs ++ ot)))
       else cbc_steal_enc C (last Cs iv) (mkmem al i (concat Cs ++ ot)) nb tl).
    { unfold cbc_cs3_enc. fold bs. unfold mlen. cbn [m_out].
      assert (Hd : length o / bs = nb) by (rewrite HLo; symmetry; apply (Nat.div_unique _ _ _ tl); lia).
      assert (Hm : length o mod bs = tl) by (rewrite HLo; symmetry; apply (Nat.mod_unique _ _ nb); lia).
      rewrite Hd, Hm. replace (Nat.ltb (length o) bs) with false by (symmetry; apply Nat.ltb_ge; nia).
      rewrite Emain. cbn [obind]. subst cells0. rewrite Ecbc. reflexivity. }
    unfold bs in F1, F2, F3.
    Opaque ce_iv ce_cs cells_of outs_of.
    run_prefix 1.
    match goal with |- context [outs_of (ce_cs C ?a ?b)] => replace (outs_of (ce_cs C a b)) with (concat Cs) by (symmetry; subst cells0; exact Eouts') end.
    match goal with |- context [ce_iv C ?a ?b] => replace (ce_iv C a b) with (last Cs iv) by (symmetry; subst cells0; exact Eiv1) end.
    match goal with |- context [len_eq ?a ?b] => replace (len_eq a b) with true by (symmetry; exact F3) end. cbv beta iota.
    match goal with |- context [MirSem.splice ?a ?b ?c ?d] => replace (MirSem.splice a b c d) with (concat Cs ++ ot) by (symmetry; exact Eo1) end.
    assert (HL1 : length (concat Cs ++ ot) = nb * bs + tl) by (rewrite app_length; lia).
    assert (G1 : fits (nb * bs) tl (length (concat Cs ++ ot)) = true) by (apply fits_true; lia).
    assert (G2 : fits (nb * bs) tl (length i) = true) by (apply fits_true; lia).
    assert (ET : forall ot', firstn tl (skipn (nb * bs) (concat Cs ++ ot')) = firstn tl ot').
    { intros ot'. rewrite <- Hol, skipn_app_exact by reflexivity. reflexivity. }
    assert (EI : firstn tl (skipn (nb * bs) i) = it).
    { subst i. rewrite <- Hci, skipn_app_exact by reflexivity. apply firstn_all2. lia. }
    rewrite run_last_if.
    match goal with |- context [evalC ?X0 ?e0 ?c0] => eval_sub (evalC X0 e0 c0) end. fold bs.
    repeat first [ok_check | progress (rewrite ?(ET ot), ?(firstn_all2 ot) by lia) | progress (rewrite <- ?Etl)].
    destruct (Nat.eq_dec tl 0) as [Htl0|Htl0].
    - replace (len_eq tl 0) with true by (symmetry; apply len_eq_true; exact Htl0).
      match goal with |- context [as_data ?e (RV (VBoolV ?b))] => change (as_data e (RV (VBoolV b))) with (Some (VBoolV b)) end. cbv beta iota.
      unfold run_block. rewrite run_last_if.
      assert (Ecl : forall ot', cells_of bs al (firstn (nb * bs) (skipn 0 i)) (firstn (nb * bs) (skipn 0 (concat Cs ++ ot'))) = map2 (mkcell al) ib Cs).
      { intros ot'. subst i. cbn [skipn]. Transparent cells_of. unfold cells_of. Opaque cells_of.
        rewrite <- Hci at 1. rewrite <- Hol. rewrite !firstn_app_exact by reflexivity. rewrite !(chunks_blocks_only C) by auto. reflexivity. }
      assert (Erd : forall ot', map rd_out (cells_of bs al (firstn (nb * bs) (skipn 0 i)) (firstn (nb * bs) (skipn 0 (concat Cs ++ ot')))) = Cs).
      { intros ot'. rewrite Ecl. apply map_rd_out_mkcell. lia. }
      match goal with |- context [evalC ?X0 ?e0 ?c0] => eval_sub (evalC X0 e0 c0) end. fold bs. unfold block in *.
      repeat first [ok_check | progress (rewrite ?Ecl, ?map2_length, ?HCl, <- ?Enb, ?Nat.min_id)].
      destruct (Nat.eq_dec nb 1) as [Hnb2|Hnb2].
      + replace (in_range 1 nb) with false by (symmetry; apply in_range_false; lia).
        match goal with |- context [as_data ?e (RV (VBoolV ?b))] => change (as_data e (RV (VBoolV b))) with (Some (VBoolV b)) end. cbv beta iota.
        eexists _, _. split; [reflexivity|]. split; [reflexivity|]. rewrite Emodel.
        replace (Nat.eqb tl 0) with true by (symmetry; apply Nat.eqb_eq; exact Htl0).
        replace (Nat.ltb 1 nb) with false by (symmetry; apply Nat.ltb_ge; lia). reflexivity.
      + replace (in_range 1 nb) with true by (symmetry; apply in_range_true; lia).
        match goal with |- context [as_data ?e (RV (VBoolV ?b))] => change (as_data e (RV (VBoolV b))) with (Some (VBoolV b)) end. cbv beta iota.
        unfold run_block.
        run_prefix 1.
        run_prefix 1. fold bs. unfold block in *.
        repeat first [ok_check | progress (rewrite ?Erd, ?Ecl, ?map2_length, ?HCl, <- ?Enb, ?Nat.min_id)].
        run_prefix 1. fold bs. unfold block in *.
        repeat first [ok_check | progress (rewrite ?Erd, ?Ecl, ?map2_length, ?HCl, <- ?Enb, ?Nat.min_id, ?firstn_length, ?skipn_length)].
        replace (Init.Nat.min (nb - 1) (nb - 0) - 1) with (nb - 2) by lia.
        destruct (exists_last (l := Cs)) as (Cp & cl & ECp). { intros E0; rewrite E0 in HCl; cbn in HCl; lia. }
        assert (Hcp : length Cp = nb - 1) by (rewrite ECp, app_length in HCl; cbn in HCl; lia).
        destruct (exists_last (l := Cp)) as (Cpp & cpen & ECpp). { intros E0; rewrite E0 in Hcp; cbn in Hcp; lia. }
        assert (Hcpp : length Cpp = nb - 2) by (rewrite ECpp, app_length in Hcp; cbn in Hcp; lia).
        assert (ECs3 : Cs = Cpp ++ [cpen; cl]) by (rewrite ECp, ECpp, <- app_assoc; reflexivity).
        assert (Hall : all_len bs Cpp /\ length cpen = bs /\ length cl = bs).
        { rewrite ECs3 in HCa. apply Forall_app in HCa. destruct HCa as [Ha Hb]. inversion Hb as [|? ? Hb1 Hb2]; subst. inversion Hb2; subst. auto. }
        destruct Hall as (HCpp & Hcpen & Hcl).
        assert (Efn : firstn (nb - 1) (skipn 0 Cs) = Cpp ++ [cpen]).
        { cbn [skipn]. rewrite ECp, <- Hcp, firstn_app_exact by reflexivity. exact ECpp. }
        assert (Enth1 : nth (nb - 2) (Cpp ++ [cpen]) [] = cpen) by (rewrite <- Hcpp, app_nth2, Nat.sub_diag by lia; reflexivity).
        assert (Enth2 : nth (nb - 1) Cs [] = cl) by (rewrite ECp, <- Hcp, app_nth2, Nat.sub_diag by lia; reflexivity).
        assert (EclZ : forall Z ot', all_len bs Z -> length Z = nb ->
                  cells_of bs al (firstn (nb * bs) (skipn 0 i)) (firstn (nb * bs) (skipn 0 (concat Z ++ ot'))) = map2 (mkcell al) ib Z).
        { intros Z ot' HZ HZl. subst i. cbn [skipn]. Transparent cells_of. unfold cells_of. Opaque cells_of.
          assert (HZc : length (concat Z) = nb * bs) by (rewrite (all_len_concat_length bs) by auto; unfold block in *; nia).
          rewrite <- Hci at 1. rewrite <- HZc. rewrite !firstn_app_exact by reflexivity. rewrite !(chunks_blocks_only C) by auto. reflexivity. }
        pose (W1 := Cpp ++ [cl; cl]). pose (W2 := Cpp ++ [cl; cpen]).
        assert (HW1 : all_len bs W1 /\ length W1 = nb).
        { split; [apply Forall_app; split; auto; repeat constructor; auto | unfold W1; rewrite app_length; cbn [length]; lia]. }
        assert (HW2 : all_len bs W2 /\ length W2 = nb).
        { split; [apply Forall_app; split; auto; repeat constructor; auto | unfold W2; rewrite app_length; cbn [length]; lia]. }
        destruct HW1 as [HW1a HW1l]. destruct HW2 as [HW2a HW2l].
        assert (Eu1 : upd_nth (nb - 2) cl (Cpp ++ [cpen]) = Cpp ++ [cl]).
        { rewrite <- Hcpp. clear. induction Cpp as [|x Cpp IH]; cbn [length upd_nth app]; [reflexivity|]. f_equal. exact IH. }
        assert (Ew1 : firstn 0 Cs ++ (Cpp ++ [cl]) ++ skipn (0 + (nb - 1)) Cs = W1).
        { cbn [firstn app Nat.add]. rewrite ECp at 1. rewrite <- Hcp, skipn_app_exact by reflexivity. unfold W1. rewrite <- app_assoc. reflexivity. }
        assert (Eu2 : upd_nth (nb - 1) cpen W1 = W2).
        { unfold W1, W2. replace (nb - 1) with (S (length Cpp)) by lia. clear. induction Cpp as [|x Cpp IH]; cbn [length upd_nth app]; [reflexivity|]. f_equal. exact IH. }
        assert (Eow1 : outs_of (map2 wr_out (map2 (mkcell al) ib Cs) W1) = concat W1) by (apply outs_wr_mkcell; lia).
        assert (Eow2 : outs_of (map2 wr_out (map2 (mkcell al) ib W1) W2) = concat W2) by (apply outs_wr_mkcell; lia).
        assert (HcW1 : length (concat W1) = nb * bs) by (rewrite (all_len_concat_length bs) by auto; unfold block in *; nia).
        assert (HcW2 : length (concat W2) = nb * bs) by (rewrite (all_len_concat_length bs) by auto; unfold block in *; nia).
        assert (Es1 : MirSem.splice 0 (nb * bs) (concat W1) (concat Cs ++ ot) = concat W1 ++ ot) by (apply seg_write_head; lia).
        assert (Es2 : MirSem.splice 0 (nb * bs) (concat W2) (concat W1 ++ ot) = concat W2 ++ ot) by (apply seg_write_head; lia).
        assert (ErdW1 : map rd_out (map2 (mkcell al) ib W1) = W1) by (apply map_rd_out_mkcell; lia).
        assert (Enth3 : nth (nb - 1) W1 [] = cl).
        { unfold W1. replace (nb - 1) with (S (length Cpp)) by lia. clear. induction Cpp as [|x Cpp IH]; cbn [length nth app]; auto. }
        assert (EW2 : W2 = Cpp ++ [cl; cpen]) by reflexivity.
        clearbody W1 W2.
        run_rest. fold bs. unfold block in *.
        repeat first [ok_check | progress (rewrite ?Erd, ?Ecl, ?map2_length, ?HCl, <- ?Enb, ?Nat.min_id, ?Efn, ?Enth1, ?Enth2, ?Eu1, ?Ew1, ?Eow1, ?HW1l, ?HcW1, ?Es1)
          | progress (rewrite ?(EclZ W1 ot HW1a HW1l), ?ErdW1, ?Eu2, ?Eow2, ?HW2l, ?HcW2, ?Es2) | progress (rewrite ?app_length; cbn [length])].
        eexists _, _. split; [reflexivity|]. split; [reflexivity|]. rewrite Emodel.
        replace (Nat.eqb tl 0) with true by (symmetry; apply Nat.eqb_eq; exact Htl0).
        replace (Nat.ltb 1 nb) with true by (symmetry; apply Nat.ltb_lt; lia).
        assert (HP : length (concat Cpp) = (nb - 2) * bs) by (rewrite (all_len_concat_length bs) by auto; unfold block in *; lia).
        assert (EB : concat Cs ++ ot = concat Cpp ++ cpen ++ cl ++ ot).
        { rewrite ECs3, concat_app. cbn [concat]. rewrite app_nil_r, <- !app_assoc. reflexivity. }
        assert (EB2 : concat W2 ++ ot = concat Cpp ++ cl ++ cpen ++ ot).
        { rewrite EW2, concat_app. cbn [concat]. rewrite app_nil_r, <- !app_assoc. reflexivity. }
        rewrite EB, EB2. unfold swap_last_two. fold bs.
        replace ((nb - 1) * bs) with ((nb - 2) * bs + bs) by nia.
        unfold mget_out, slice. cbn [m_out]. rewrite !app_length, HP, Hcpen, Hcl.
        replace (Nat.leb ((nb - 2) * bs) ((nb - 2) * bs + bs)) with true by (symmetry; apply Nat.leb_le; lia).
        replace (Nat.leb ((nb - 2) * bs + bs) ((nb - 2) * bs + (bs + (bs + length ot)))) with true by (symmetry; apply Nat.leb_le; lia).
        replace (Nat.leb ((nb - 2) * bs + bs) ((nb - 2) * bs + bs + bs)) with true by (symmetry; apply Nat.leb_le; lia).
        replace (Nat.leb ((nb - 2) * bs + bs + bs) ((nb - 2) * bs + (bs + (bs + length ot)))) with true by (symmetry; apply Nat.leb_le; lia).
        cbn [andb obind].
        replace ((nb - 2) * bs + bs - (nb - 2) * bs) with bs by lia. replace ((nb - 2) * bs + bs + bs - ((nb - 2) * bs + bs)) with bs by lia.
        assert (R1 : firstn bs (skipn ((nb - 2) * bs + bs) (concat Cpp ++ cpen ++ cl ++ ot)) = cl).
        { rewrite <- HP. rewrite skipn_app, skipn_all2 by lia. replace (length (concat Cpp) + bs - length (concat Cpp)) with bs by lia.
          cbn [app]. rewrite <- Hcpen, skipn_app_exact by reflexivity. rewrite Hcpen, <- Hcl, firstn_app_exact by reflexivity. reflexivity. }
        assert (R2 : firstn bs (skipn ((nb - 2) * bs) (concat Cpp ++ cpen ++ cl ++ ot)) = cpen).
        { rewrite <- HP, skipn_app_exact by reflexivity. rewrite <- Hcpen, firstn_app_exact by reflexivity. reflexivity. }
        rewrite R1, R2. unfold mput_out at 1. cbn [m_al m_in m_out]. rewrite !app_length, HP, Hcpen, Hcl.
        replace (Nat.leb ((nb - 2) * bs + bs) ((nb - 2) * bs + (bs + (bs + length ot)))) with true by (symmetry; apply Nat.leb_le; lia).
        cbn [obind]. unfold mput_out. cbn [m_al m_in m_out].
        assert (S1 : splice (concat Cpp ++ cpen ++ cl ++ ot) ((nb - 2) * bs) cl = concat Cpp ++ cl ++ cl ++ ot).
        { unfold splice. rewrite <- HP, firstn_app_exact by reflexivity. rewrite skipn_app, skipn_all2 by lia.
          replace (length (concat Cpp) + length cl - length (concat Cpp)) with (length cpen) by lia. cbn [app]. rewrite skipn_app_exact by reflexivity. reflexivity. }
        rewrite S1, !app_length, HP, Hcl, Hcpen.
        replace (Nat.leb ((nb - 2) * bs + bs + bs) ((nb - 2) * bs + (bs + (bs + length ot)))) with true by (symmetry; apply Nat.leb_le; lia).
        do 2 f_equal. unfold splice. rewrite Hcpen.
        replace ((nb - 2) * bs + bs) with (length (concat Cpp ++ cl)) by (rewrite app_length; lia).
        rewrite (app_assoc (concat Cpp) cl), firstn_app_exact by reflexivity. rewrite <- app_assoc. f_equal. f_equal. f_equal.
        rewrite skipn_app, skipn_all2 by lia. replace (length (concat Cpp ++ cl) + bs - length (concat Cpp ++ cl)) with (length cl) by lia.
        cbn [app]. rewrite skipn_app_exact by reflexivity. reflexivity.
    - replace (len_eq tl 0) with false by (symmetry; apply len_eq_false; exact Htl0).
      match goal with |- context [as_data ?e (RV (VBoolV ?b))] => change (as_data e (RV (VBoolV b))) with (Some (VBoolV b)) end. cbv beta iota.
      unfold run_block.
      run_prefix 1.
      run_prefix 1. fold bs. unfold block in *.
      repeat first [ok_check | progress (rewrite ?(ET ot), ?EI, ?(firstn_all2 ot), ?zeros_length by lia) | progress (rewrite <- ?Etl)].
      remember (if al then ot else it) as tin eqn:Etin.
      assert (Htin : length tin = tl) by (subst tin; destruct al; lia).
      repeat ok_check.
      assert (Eblk : MirSem.splice 0 (tl - 0) tin (zeros bs) = tin ++ zeros (bs - tl)).
      { unfold MirSem.splice. cbn [firstn app Nat.add]. f_equal. unfold zeros. rewrite skipn_repeat_l. f_equal. lia. }
      rewrite Eblk.
      remember (tin ++ zeros (bs - tl)) as blk eqn:Eb.
      assert (Hblk : length blk = bs) by (subst blk; rewrite app_length, zeros_length; lia).
      unfold bs. run_prefix 2. fold bs.
      match goal with |- context [VBlk (c_E C ?x)] => remember (c_E C x) as cb eqn:Ecb end.
      assert (Hcb : length cb = bs) by (subst cb; apply E_len; rewrite xor_into_length; exact Hblk).
      assert (Ecl : forall ot', cells_of bs al (firstn (nb * bs) (skipn 0 i)) (firstn (nb * bs) (skipn 0 (concat Cs ++ ot'))) = map2 (mkcell al) ib Cs).
      { intros ot'. subst i. cbn [skipn]. Transparent cells_of. unfold cells_of. Opaque cells_of.
        rewrite <- Hci at 1. rewrite <- Hol. rewrite !firstn_app_exact by reflexivity. rewrite !(chunks_blocks_only C) by auto. reflexivity. }
      assert (Erd : forall ot', map rd_out (cells_of bs al (firstn (nb * bs) (skipn 0 i)) (firstn (nb * bs) (skipn 0 (concat Cs ++ ot')))) = Cs).
      { intros ot'. rewrite Ecl. apply map_rd_out_mkcell. lia. }
      destruct (exists_last (l := Cs)) as (Cp & cl & ECp). { intros E0; rewrite E0 in HCl; cbn in HCl; lia. }
      assert (Hcp : length Cp = nb - 1) by (rewrite ECp, app_length in HCl; cbn in HCl; lia).
      assert (Hcl : length cl = bs) by (rewrite ECp in HCa; apply Forall_app in HCa; destruct HCa as [_ Hx]; inversion Hx; auto).
      assert (Enth : nth (nb - 1) Cs [] = cl).
      { rewrite ECp, <- Hcp, app_nth2, Nat.sub_diag by lia. reflexivity. }
      assert (Eup : upd_nth (nb - 1) cb Cs = Cp ++ [cb]).
      { rewrite ECp, <- Hcp. clear. induction Cp as [|x Cp IH]; cbn [length upd_nth app]; [reflexivity|]. f_equal. exact IH. }
      assert (Hcpl : length (concat Cp) = (nb - 1) * bs).
      { rewrite (all_len_concat_length bs). - unfold block in *; lia. - rewrite ECp in HCa. apply Forall_app in HCa. tauto. }
      assert (Hup : length (concat (Cp ++ [cb])) = nb * bs).
      { rewrite concat_app, app_length, Hcpl. cbn [concat]. rewrite app_nil_r, Hcb. nia. }
      assert (Eow : outs_of (map2 wr_out (map2 (mkcell al) ib Cs) (Cp ++ [cb])) = concat (Cp ++ [cb])).
      { apply outs_wr_mkcell; [lia|]. rewrite app_length. cbn [length]. lia. }
      assert (Eo3 : forall t, MirSem.splice 0 (nb * bs) (concat (Cp ++ [cb])) (concat Cs ++ t) = concat (Cp ++ [cb]) ++ t).
      { intros t. apply seg_write_head. lia. }
      unfold bs. run_prefix 1. fold bs. unfold block in *.
      repeat first [ok_check | progress (rewrite ?Erd, ?HCl)].
      unfold bs. run_prefix 1. fold bs. unfold block in *.
      repeat first [ok_check | progress (cbn [length]) | progress (rewrite ?Erd, ?Ecl, ?Enth, ?HCl, ?Hcl, ?app_length, ?zeros_length, ?Htin, ?Eup,
         ?Eow, ?map2_length, ?Hup, <- ?Enb, ?Nat.min_id, ?Hcp, ?Eo3)].
      assert (HL2 : length (concat (Cp ++ [cb]) ++ ot) = nb * bs + tl) by (rewrite app_length; lia).
      assert (ET2 : forall ot', firstn tl (skipn (nb * bs) (concat (Cp ++ [cb]) ++ ot')) = firstn tl ot').
      { intros ot'. rewrite <- Hup, skipn_app_exact by reflexivity. reflexivity. }
      unfold bs. run_prefix 1. fold bs. unfold block in *.
      repeat first [ok_check | progress (rewrite ?HL2, ?ET2, ?(firstn_all2 ot), ?Hcl by lia) | progress (rewrite <- ?Etl)].
      run_rest. fold bs. unfold block in *.
      repeat first [ok_check | progress (rewrite ?HL2, ?ET2, ?(firstn_all2 ot), ?Hcl, ?firstn_length, ?skipn_length by lia) | progress (rewrite <- ?Etl)].
      assert (Eo4 : MirSem.splice (nb * bs) tl (firstn (tl - 0) (skipn 0 cl)) (concat (Cp ++ [cb]) ++ ot) = concat (Cp ++ [cb]) ++ firstn tl cl).
      { cbn [skipn]. rewrite Nat.sub_0_r. unfold MirSem.splice. rewrite <- Hup at 1. rewrite firstn_app_exact by reflexivity.
        rewrite skipn_all2 by (rewrite app_length; lia). rewrite app_nil_r. reflexivity. }
      rewrite ?Eo4.
      eexists _, _. split; [reflexivity|]. split; [reflexivity|]. rewrite Emodel.
      replace (Nat.eqb tl 0) with false by (symmetry; apply Nat.eqb_neq; lia).
      unfold cbc_steal_enc. fold bs. unfold usub. replace (Nat.leb 1 nb) with true by (symmetry; apply Nat.leb_le; lia).
      assert (Ego : mget_out (mkmem al i (concat Cs ++ ot)) ((nb - 1) * bs) bs = Ok cl).
      { unfold mget_out, slice. cbn [m_out]. rewrite HL1.
        replace (Nat.leb ((nb - 1) * bs) ((nb - 1) * bs + bs)) with true by (symmetry; apply Nat.leb_le; lia).
        replace (Nat.leb ((nb - 1) * bs + bs) (nb * bs + tl)) with true by (symmetry; apply Nat.leb_le; nia). cbn [andb].
        replace ((nb - 1) * bs + bs - (nb - 1) * bs) with bs by lia.
        rewrite ECp, concat_app, <- app_assoc, <- Hcpl, skipn_app_exact by reflexivity. cbn [concat]. rewrite app_nil_r, <- Hcl, firstn_app_exact by reflexivity. reflexivity. }
      assert (Eg : mget_in (mkmem al i (concat Cs ++ ot)) (nb * bs) tl = Ok tin).
      { unfold mget_in, msrc, slice. cbn [m_al m_in m_out]. subst tin.
        replace (nb * bs + tl - nb * bs) with tl by lia.
        destruct al.
        - rewrite HL1. replace (Nat.leb (nb * bs) (nb * bs + tl)) with true by (symmetry; apply Nat.leb_le; lia).
          rewrite Nat.leb_refl. cbn [andb]. rewrite (ET ot), firstn_all2 by lia. reflexivity.
        - rewrite HLi. replace (Nat.leb (nb * bs) (nb * bs + tl)) with true by (symmetry; apply Nat.leb_le; lia).
          rewrite Nat.leb_refl. cbn [andb]. rewrite EI. reflexivity. }
      rewrite Eg. cbn [obind]. rewrite Ego. cbn [obind]. rewrite <- Eb, <- (xor_into_eq blk (last Cs iv)) by lia. unfold block in *. rewrite <- Ecb.
      unfold mput_out at 1. cbn [m_al m_in m_out]. rewrite HL1, Hcb.
      replace (Nat.leb ((nb - 1) * bs + bs) (nb * bs + tl)) with true by (symmetry; apply Nat.leb_le; nia). cbn [obind].
      assert (Es1 : splice (concat Cs ++ ot) ((nb - 1) * bs) cb = concat (Cp ++ [cb]) ++ ot).
      { unfold splice. rewrite Hcb. rewrite ECp at 1 2. rewrite !concat_app. cbn [concat]. rewrite !app_nil_r, <- !app_assoc.
        rewrite <- Hcpl, firstn_app_exact by reflexivity. rewrite skipn_app, skipn_all2, Hcpl by lia.
        replace ((nb - 1) * bs + bs - (nb - 1) * bs) with bs by lia. rewrite <- Hcl, skipn_app_exact by reflexivity. reflexivity. }
      rewrite Es1. unfold mput_out. cbn [m_al m_in m_out]. rewrite HL2, firstn_length, Hcl.
      replace (Nat.leb (nb * bs + Nat.min tl bs) (nb * bs + tl)) with true by (symmetry; apply Nat.leb_le; lia).
      do 2 f_equal. unfold splice. rewrite <- Hup at 1. rewrite firstn_app_exact by reflexivity.
      rewrite skipn_all2 by (rewrite app_length, firstn_length; lia). rewrite app_nil_r. reflexivity.
  Qed.

  (* ---- C05 over the translated source: the bytes this closure body leaves in the buffer are the NIST SP 800-38A
     Addendum ciphertext of the message, buffer-to-buffer (any prior contents of the output buffer) and in place --
     the tie theorem above composed with Cts_cs_proofs.cbc_cs3_enc_ok (= Props/C05). *)
  Theorem C05_cbc_cs3_enc_source_b2b iv (blocks : list (list N)) (tail : list N) (ob : list (list N)) (ot : list N) :
    cipher_wf C -> length iv = bs -> all_len bs blocks -> 1 <= length blocks -> length tail < bs ->
    all_len bs ob -> length ob = length blocks -> length ot = length tail ->
    exists e', run_body X (cenv true iv false (concat blocks ++ tail) (concat ob ++ ot)) cts__cbc_cs3__BlockCipherEncClosure__Closure__call = Some (e', VUnit)
      /\ lookup "buf" e' = Some (VBuf false (concat blocks ++ tail) (cbc_cs3_spec bs (c_E C) iv blocks tail)).
  Proof.
    intros Cwf Hiv Hb Hn Ht Hob Hobl Hotl.
    destruct (tie_cts__cbc_cs3__BlockCipherEncClosure__Closure__call iv false blocks tail ob ot) as (e' & o' & Hrun & Hbuf & Hmod); auto; try lia.
    assert (Hm : msg_mem C (mkmem false (concat blocks ++ tail) (concat ob ++ ot)) blocks tail).
    { constructor; auto. split; [|discriminate]. cbn [m_in m_out]. rewrite !app_length, !(all_len_concat_length bs) by auto. lia. }
    destruct (cbc_cs3_enc_ok C Cwf iv _ blocks tail Hiv Hm) as (m' & E1 & E2).
    fold bs in E2. rewrite Hmod in E1. injection E1 as <-. cbn [m_out] in E2. subst o'.
    exists e'. split; [exact Hrun | exact Hbuf].
  Qed.

  Theorem C05_cbc_cs3_enc_source_inplace iv (blocks : list (list N)) (tail : list N) :
    cipher_wf C -> length iv = bs -> all_len bs blocks -> 1 <= length blocks -> length tail < bs ->
    exists e', run_body X (cenv true iv true (concat blocks ++ tail) (concat blocks ++ tail)) cts__cbc_cs3__BlockCipherEncClosure__Closure__call = Some (e', VUnit)
      /\ lookup "buf" e' = Some (VBuf true (concat blocks ++ tail) (cbc_cs3_spec bs (c_E C) iv blocks tail)).
  Proof.
    intros Cwf Hiv Hb Hn Ht.
    destruct (tie_cts__cbc_cs3__BlockCipherEncClosure__Closure__call iv true blocks tail blocks tail) as (e' & o' & Hrun & Hbuf & Hmod); auto; try lia.
    assert (Hm : msg_mem C (mkmem true (concat blocks ++ tail) (concat blocks ++ tail)) blocks tail).
    { constructor; auto. split; auto. }
    destruct (cbc_cs3_enc_ok C Cwf iv _ blocks tail Hiv Hm) as (m' & E1 & E2).
    fold bs in E2. rewrite Hmod in E1. injection E1 as <-. cbn [m_out] in E2. subst o'.
    exists e'. split; [exact Hrun | exact Hbuf].
  Qed.
End CbcCs3Enc.
