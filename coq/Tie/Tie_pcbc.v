(* Tie_pcbc.v -- the translated bodies of pcbc/src compute what the model (BlockModes.v) computes.
   Re-checked on every run against the freshly generated Src_pcbc.v. *)
From BM Require Import Tie.TieLib.
From BMGen Require Import Src_pcbc.
Local Open Scope string_scope.
Local Open Scope list_scope.

Lemma tie_pcbc_xor C a b :
  call_fn (bctx C [] []) pcbc__lib__xor [VBlk a; VBlk b] = xor_sem [VBlk a; VBlk b].
Proof.
  unfold call_fn, call_src. ev.
  match goal with |- context [for_each (seq ?a0 ?n) ?body ?e0] =>
    destruct (for_each_seq_inv
      (fun k e => e = [("buf", VRef (PVar "$a1")); ("$a1", VBlk b); ("out", VRef (PVar "$a0"));
                       ("$a0", VBlk (xor_upto k a b))])
      body a0 n e0) as (e' & He & HP)
  end.
  - reflexivity.
  - intros i e Hi ->. unfold LOOP_DEPTH. cbn [loopN]. ev_checks.
    do 2 eexists; split; [reflexivity|]. rewrite xor_upto_step by lia. reflexivity.
  - rewrite He, HP. evf. rewrite Nat.add_0_l, xor_upto_end. reflexivity.
Qed.

Section Pcbc.
  Variable C : cipher.
  Let X := bctx C [("xor", FSem xor_sem)] [].
  Definition enc_self (iv : block) : val := VStruct "Backend" [("iv", VBlk iv); ("backend", VCipher true false)].
  Definition dec_self (iv : block) : val := VStruct "Backend" [("iv", VBlk iv); ("cipher_backend", VCipher false true)].

  Lemma tie_pcbc_encrypt_block iv c : length iv = length (rd_in c) -> length (c_E C (xorb (rd_in c) iv)) = length (rd_in c) ->
    call_fn X pcbc__encrypt__BlockModeEncBackend__Backend__encrypt_block [enc_self iv; VCell c]
    = let '(iv', c') := pcbc_enc_block C iv c in Some (VUnit, [enc_self iv'; VCell c']).
  Proof. intros H H2. unfold call_fn, call_src. evf. rewrite !xor_into_eq by (rewrite ?xor_into_eq by lia; lia). reflexivity. Qed.

  Lemma tie_pcbc_decrypt_block iv c : length iv = length (c_D C (rd_in c)) -> length (c_D C (rd_in c)) = length (rd_in c) ->
    call_fn X pcbc__decrypt__BlockModeDecBackend__Backend__decrypt_block [dec_self iv; VCell c]
    = let '(iv', c') := pcbc_dec_block C iv c in Some (VUnit, [dec_self iv'; VCell c']).
  Proof. intros H H2. unfold call_fn, call_src. evf.
    rewrite !xor_into_eq by (rewrite ?xor_into_eq, ?xorb_length by lia; lia). reflexivity. Qed.

  Lemma tie_pcbc_enc_init iv :
    call_fn X pcbc__encrypt__InnerIvInit__Encryptor__inner_iv_init [VCipher true false; VBlk iv]
    = Some (VStruct "Self" [("cipher", VCipher true false); ("iv", VBlk (pcbc_init iv))], [VCipher true false; VBlk iv]).
  Proof. unfold call_fn, call_src. evf. reflexivity. Qed.
  Lemma tie_pcbc_dec_init iv :
    call_fn X pcbc__decrypt__InnerIvInit__Decryptor__inner_iv_init [VCipher false true; VBlk iv]
    = Some (VStruct "Self" [("cipher", VCipher false true); ("iv", VBlk (pcbc_init iv))], [VCipher false true; VBlk iv]).
  Proof. unfold call_fn, call_src. evf. reflexivity. Qed.
  Lemma tie_pcbc_enc_iv_state st :
    let self := VStruct "Encryptor" [("cipher", VCipher true false); ("iv", VBlk st)] in
    call_fn X pcbc__encrypt__IvState__Encryptor__iv_state [self] = Some (VBlk (pcbc_iv_state st), [self]).
  Proof. unfold call_fn, call_src. evf. reflexivity. Qed.
  Lemma tie_pcbc_dec_iv_state st :
    let self := VStruct "Decryptor" [("cipher", VCipher false true); ("iv", VBlk st)] in
    call_fn X pcbc__decrypt__IvState__Decryptor__iv_state [self] = Some (VBlk (pcbc_iv_state st), [self]).
  Proof. unfold call_fn, call_src. evf. reflexivity. Qed.
End Pcbc.

(* ---- C02 over the translated source: the whole block sequence ---------------------------------------- *)
From BM Require Import BlockModes_proofs Spec.
Section PcbcSource.
  Variable C : cipher.
  Variable n : nat.
  Hypothesis E_len : forall x, length x = n -> length (c_E C x) = n.
  Hypothesis D_len : forall x, length x = n -> length (c_D C x) = n.
  Let X := bctx C [("xor", FSem xor_sem)] [].
  Definition src_pcbc_enc_step (iv : block) (c : cell) : option (block * cell) :=
    match call_fn X pcbc__encrypt__BlockModeEncBackend__Backend__encrypt_block [enc_self iv; VCell c] with
    | Some (VUnit, [VStruct _ [("iv", VBlk iv'); _]; VCell c']) => Some (iv', c') | _ => None end.
  Definition src_pcbc_dec_step (iv : block) (c : cell) : option (block * cell) :=
    match call_fn X pcbc__decrypt__BlockModeDecBackend__Backend__decrypt_block [dec_self iv; VCell c] with
    | Some (VUnit, [VStruct _ [("iv", VBlk iv'); _]; VCell c']) => Some (iv', c') | _ => None end.

  Theorem C02_pcbc_enc_source s cs : length s = n -> Forall (fun c => length (rd_in c) = n) cs ->
    fold_src src_pcbc_enc_step s cs
    = Some (pcbc_chain s (map rd_in cs) (pcbc_enc_spec (c_E C) s (map rd_in cs)), map2 wr_out cs (pcbc_enc_spec (c_E C) s (map rd_in cs))).
  Proof.
    intros Hs Hcs.
    rewrite (fold_src_ok src_pcbc_enc_step (pcbc_enc_block C) (fun st => length st = n) (fun c => length (rd_in c) = n)); auto.
    - now rewrite pcbc_enc_fold.
    - intros st c Hst Hc. unfold src_pcbc_enc_step, X.
      assert (HEl : length (c_E C (xorb (rd_in c) st)) = n) by (apply E_len; rewrite xorb_length_eq; lia).
      rewrite (tie_pcbc_encrypt_block C st c) by lia.
      unfold pcbc_enc_block. cbn [fst]. split; [reflexivity|]. rewrite xorb_length_eq; lia.
  Qed.

  Theorem C02_pcbc_dec_source s cs : length s = n -> Forall (fun c => length (rd_in c) = n) cs ->
    fold_src src_pcbc_dec_step s cs
    = Some (pcbc_chain s (pcbc_dec_spec (c_D C) s (map rd_in cs)) (map rd_in cs), map2 wr_out cs (pcbc_dec_spec (c_D C) s (map rd_in cs))).
  Proof.
    intros Hs Hcs.
    rewrite (fold_src_ok src_pcbc_dec_step (pcbc_dec_block C) (fun st => length st = n) (fun c => length (rd_in c) = n)); auto.
    - now rewrite pcbc_dec_fold.
    - intros st c Hst Hc. unfold src_pcbc_dec_step, X.
      assert (HDl : length (c_D C (rd_in c)) = n) by (apply D_len; lia).
      rewrite (tie_pcbc_decrypt_block C st c) by lia.
      unfold pcbc_dec_block. cbn [fst]. split; [reflexivity|]. rewrite !xorb_length_eq; rewrite ?xorb_length_eq; lia.
  Qed.
End PcbcSource.
