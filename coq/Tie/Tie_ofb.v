(* Tie_ofb.v -- the translated bodies of ofb/src/lib.rs compute what the model (the ofb_ definitions of
   BlockModes.v) computes: one backend behind BlockModeEncBackend, BlockModeDecBackend and StreamCipherBackend. *)
From BM Require Import Tie.TieLib.
From BMGen Require Import Src_ofb.
Local Open Scope string_scope.
Local Open Scope list_scope.

Section Ofb.
  Variable C : cipher.
  Let X := bctx C [] [("None", VOpt None)].
  Definition be_self (iv : block) : val := VStruct "Backend" [("iv", VBlk iv); ("backend", VCipher true false)].

  Lemma tie_ofb_gen_ks_block iv junk :
    call_fn X ofb__lib__StreamCipherBackend__Backend__gen_ks_block [be_self iv; VBlk junk]
    = let '(iv', ks) := ofb_gen C iv in Some (VUnit, [be_self iv'; VBlk ks]).
  Proof. run_fn. reflexivity. Qed.

  Lemma tie_ofb_encrypt_block iv c :
    call_fn X ofb__lib__BlockModeEncBackend__Backend__encrypt_block [be_self iv; VCell c]
    = let '(iv', c') := ofb_enc_block C iv c in Some (VUnit, [be_self iv'; VCell c']).
  Proof. run_fn. reflexivity. Qed.

  Lemma tie_ofb_decrypt_block iv c :
    call_fn X ofb__lib__BlockModeDecBackend__Backend__decrypt_block [be_self iv; VCell c]
    = let '(iv', c') := ofb_dec_block C iv c in Some (VUnit, [be_self iv'; VCell c']).
  Proof. run_fn. reflexivity. Qed.

  Lemma tie_ofb_init iv :
    call_fn X ofb__lib__InnerIvInit__OfbCore__inner_iv_init [VCipher true false; VBlk iv]
    = Some (VStruct "Self" [("cipher", VCipher true false); ("iv", VBlk (ofb_init iv))], [VCipher true false; VBlk iv]).
  Proof. run_fn. reflexivity. Qed.

  Lemma tie_ofb_iv_state st :
    let self := VStruct "OfbCore" [("cipher", VCipher true false); ("iv", VBlk st)] in
    call_fn X ofb__lib__IvState__OfbCore__iv_state [self] = Some (VBlk (ofb_iv_state st), [self]).
  Proof. run_fn. reflexivity. Qed.

  (* OFB reports no limit *)
  Lemma tie_ofb_remaining st :
    let self := VStruct "OfbCore" [("cipher", VCipher true false); ("iv", VBlk st)] in
    call_fn X ofb__lib__StreamCipherCore__OfbCore__remaining_blocks [self] = Some (VOpt None, [self]).
  Proof. run_fn. reflexivity. Qed.
End Ofb.
