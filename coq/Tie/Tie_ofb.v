(* Tie_ofb.v -- the translated bodies of ofb/src/lib.rs compute what the model (the ofb_ definitions of
   BlockModes.v) computes: one backend behind BlockModeEncBackend, BlockModeDecBackend and StreamCipherBackend. *)
From BM Require Import Tie.TieLib.
From BMGen Require Import Src_ofb.
Local Open Scope string_scope.
Local Open Scope list_scope.

Section Ofb.
  Variable C : cipher.
  Let X := bctx C [] [("None", VOpt None)].
  Definition be_self (iv : block) : val := VStruct "Backend" [("iv", VBlk iv); ("backend", VCipher true false)].

  Lemma tie_ofb_gen_ks_block iv junk :
    call_fn X ofb__lib__StreamCipherBackend__Backend__gen_ks_block [be_self iv; VBlk junk]
    = let '(iv', ks) := ofb_gen C iv in Some (VUnit, [be_self iv'; VBlk ks]).
  Proof. run_fn. reflexivity. Qed.

  Lemma tie_ofb_encrypt_block iv c :
    call_fn X ofb__lib__BlockModeEncBackend__Backend__encrypt_block [be_self iv; VCell c]
    = let '(iv', c') := ofb_enc_block C iv c in Some (VUnit, [be_self iv'; VCell c']).
  Proof. run_fn. reflexivity. Qed.

  Lemma tie_ofb_decrypt_block iv c :
    call_fn X ofb__lib__BlockModeDecBackend__Backend__decrypt_block [be_self iv; VCell c]
    = let '(iv', c') := ofb_dec_block C iv c in Some (VUnit, [be_self iv'; VCell c']).
  Proof. run_fn. reflexivity. Qed.

  Lemma tie_ofb_init iv :
    call_fn X ofb__lib__InnerIvInit__OfbCore__inner_iv_init [VCipher true false; VBlk iv]
    = Some (VStruct "Self" [("cipher", VCipher true false); ("iv", VBlk (ofb_init iv))], [VCipher true false; VBlk iv]).
  Proof. run_fn. reflexivity. Qed.

  Lemma tie_ofb_iv_state st :
    let self := VStruct "OfbCore" [("cipher", VCipher true false); ("iv", VBlk st)] in
    call_fn X ofb__lib__IvState__OfbCore__iv_state [self] = Some (VBlk (ofb_iv_state st), [self]).
  Proof. run_fn. reflexivity. Qed.

  (* OFB reports no limit *)
  Lemma tie_ofb_remaining st :
    let self := VStruct "OfbCore" [("cipher", VCipher true false); ("iv", VBlk st)] in
    call_fn X ofb__lib__StreamCipherCore__OfbCore__remaining_blocks [self] = Some (VOpt None, [self]).
  Proof. run_fn. reflexivity. Qed.
End Ofb.

(* ---- C03 over the translated source: the whole block sequence ---------------------------------------- *)
From BM Require Import BlockModes_proofs Spec.
Section OfbSource.
  Variable C : cipher.
  Let X := bctx C [] [("None", VOpt None)].
  Definition src_ofb_enc_step (iv : block) (c : cell) : option (block * cell) :=
    match call_fn X ofb__lib__BlockModeEncBackend__Backend__encrypt_block [be_self iv; VCell c] with
    | Some (VUnit, [VStruct _ [("iv", VBlk iv'); _]; VCell c']) => Some (iv', c') | _ => None end.
  Definition src_ofb_dec_step (iv : block) (c : cell) : option (block * cell) :=
    match call_fn X ofb__lib__BlockModeDecBackend__Backend__decrypt_block [be_self iv; VCell c] with
    | Some (VUnit, [VStruct _ [("iv", VBlk iv'); _]; VCell c']) => Some (iv', c') | _ => None end.

  Theorem C03_ofb_enc_source s cs :
    fold_src src_ofb_enc_step s cs
    = Some (iter_E (c_E C) (length cs) s, map2 wr_out cs (ofb_spec (c_E C) s (map rd_in cs))).
  Proof.
    rewrite (fold_src_ok src_ofb_enc_step (ofb_enc_block C) (fun _ => True) (fun _ => True)).
    - now rewrite ofb_enc_fold.
    - intros st c _ _. unfold src_ofb_enc_step, X. rewrite (tie_ofb_encrypt_block C st c).
      destruct (ofb_enc_block C st c). split; [reflexivity|exact I].
    - exact I.
    - apply Forall_forall. auto.
  Qed.

  (* the block decryptor is the same function *)
  Theorem C03_ofb_dec_source s cs :
    fold_src src_ofb_dec_step s cs
    = Some (iter_E (c_E C) (length cs) s, map2 wr_out cs (ofb_spec (c_E C) s (map rd_in cs))).
  Proof.
    rewrite (fold_src_ok src_ofb_dec_step (ofb_dec_block C) (fun _ => True) (fun _ => True)).
    - now rewrite ofb_dec_fold.
    - intros st c _ _. unfold src_ofb_dec_step, X. rewrite (tie_ofb_decrypt_block C st c).
      destruct (ofb_dec_block C st c). split; [reflexivity|exact I].
    - exact I.
    - apply Forall_forall. auto.
  Qed.
End OfbSource.
