(* Tie_cts_closures_cbc1dec.v -- semantic tie of the CbcCs1 decryption closure body (cts/src/cbc_cs1.rs) to Cts.cbc_cs1_dec.
   Proved in stages: cbc_cs1_dec_head (statements up to the bulk decryption over all whole blocks but the last, through
   `blocks.split_at(mid).0`), cbc_cs1_dec_tail (the un-stealing step on the last bs + tail bytes), composed with
   MirLemmas.run_stmts_app; the whole-block case is plain CBC. *)
From BM Require Import Tie.TieLib Tie.ClosureLib Cts Cts_mem Cts_proofs Cts_dec_proofs Cts_spec Cts_cs_proofs Spec Spec_proofs BlockModes_proofs.
From BMGen Require Import Src_cts.
Local Open Scope string_scope.
Local Open Scope list_scope.

Ltac slen' := rewrite ?app_length, ?firstn_length, ?skipn_length, ?zeros_length, ?xor_into_length; first [lia | nia].
Ltac ok_check' := match goal with
 | |- context [in_range ?a ?b] => replace (in_range a b) with true by (symmetry; apply in_range_true; slen')
 | |- context [fits ?a ?b ?c] => replace (fits a b c) with true by (symmetry; apply fits_true; slen')
 | |- context [len_eq ?a ?b] => replace (len_eq a b) with true by (symmetry; apply len_eq_true; slen')
 | |- context [le_ok ?a ?b] => replace (le_ok a b) with true by (symmetry; apply le_ok_true; slen')
 end; cbv beta iota.

Ltac pick_branch :=
  match goal with |- context [as_data ?e (RV (VBoolV ?b))] => change (as_data e (RV (VBoolV b))) with (Some (VBoolV b)) end; cbv beta iota.

Definition cd_iv (C : cipher) iv cs := fst (cts_cbc_dec C iv cs).
Definition cd_cs (C : cipher) iv cs := snd (cts_cbc_dec C iv cs).
Definition cbc_dec_sem (C : cipher) (args : list val) : option (val * list val) :=
  match args with
  | [c; VBlk iv; VCells cs] => Some (VUnit, [c; VBlk (cd_iv C iv cs); VCells (cd_cs C iv cs)])
  | _ => None
  end.

Lemma run_if_mid C e c t el rest : rest <> [] ->
  run_stmts (evalC C) e (SExpr (EIf c t el) true :: rest) =
  match evalC C e c with
  | Some (Norm e1 r) =>
      match as_data e1 r with
      | Some (VBoolV b) =>
          match run_block (evalC C) e1 (if b then t else el) with
          | Some (Norm e2 _) => run_stmts (evalC C) e2 rest
          | Some (Ret e2 v) => Some (Ret e2 v)
          | None => None
          end
      | _ => None
      end
  | Some (Ret e1 v) => Some (Ret e1 v)
  | None => None
  end.
Proof.
  intros Hr. destruct rest as [|s0 rest]; [congruence|]. cbn [run_stmts]. rewrite eval_if.
  destruct (evalC C e c) as [[e1 r|e1 v]|]; cbn [bindF]; try reflexivity.
  destruct (as_data e1 r) as [v|]; try reflexivity. destruct v; try reflexivity.
  destruct b; destruct (run_block (evalC C) e1 _) as [[e2 r2|e2 v2]|]; reflexivity.
Qed.

Section CbcCs1DecB.
  Variable C : cipher.
  Let bs := c_bs C.
  Hypothesis Cwf : cipher_wf C.
  Let bs_pos : 0 < bs.
  Proof. destruct Cwf as (H & _). exact H. Qed.
  Let D_len : forall x, length x = bs -> length (c_D C x) = bs.
  Proof. destruct Cwf as (_ & _ & _ & H). exact H. Qed.
  Let X := bctx C [("cbc_dec", FSem (cbc_dec_sem C)); ("xor", FSem xor_sem)]
                  [("into_chunks::BS", VNat bs); ("Block::<B>::default()", VBlk (zeros bs)); ("B::BlockSize::USIZE", VNat bs); ("try_into::LEN", VNat bs)].

  Definition envA (iv0 iv1 : block) (al : bool) (i o0 o : list N) (nb tl : nat) : env :=
    [("tail", VRef (PBytes (PVar "buf") (nb * bs) tl));
     ("blocks", VRef (PCells (PBlocks (PVar "buf") 0 nb bs) 0 (nb - 1)));
     ("buf", VBuf al i o); ("iv", VBlk iv1); ("cipher", VCipher false true);
     ("self", VStruct "Closure" [("iv", VBlk iv0); ("buf", VBuf al i o0)])].

  (* the un-stealing step, on a buffer whose first nb - 1 blocks are done *)
  Lemma cbc_cs1_dec_tail (iv0 iv1 : list N) (al : bool) (ibp : list (list N)) (il it : list N) (Csp : list (list N)) (ol ot o0 : list N) nb tl :
    length iv1 = bs -> all_len bs ibp -> all_len bs Csp -> length il = bs -> length ol = bs ->
    length ibp = nb - 1 -> length Csp = nb - 1 -> 1 <= nb -> length it = tl -> length ot = tl -> 0 < tl < bs ->
    let i := concat ibp ++ il ++ it in let o := concat Csp ++ ol ++ ot in
    let src1 := if al then ol else il in let srct := if al then ot else it in
    let B2d := c_D C (skipn tl (src1 ++ srct)) in
    let b1' := firstn tl src1 ++ skipn tl B2d in
    let B2 := xor_into B2d b1' in
    let B1 := xor_into (c_D C b1') iv1 in
    exists e', run_stmts (evalC X) (envA iv0 iv1 al i o0 o nb tl) (skipn 4 (fn_body cts__cbc_cs1__BlockCipherDecClosure__Closure__call))
                 = Some (Norm e' (RV VUnit))
      /\ lookup "buf" e' = Some (VBuf al i (concat Csp ++ B1 ++ firstn tl B2)).
  Proof.
    intros Hiv1 Hibp HCsp Hil Hol Hk1 Hk2 Hnb1 Hit Hot Htl i o src1 srct B2d b1' B2 B1. unfold block in *.
    assert (Hci : length (concat ibp) = (nb - 1) * bs) by (rewrite (all_len_concat_length bs) by auto; lia).
    assert (Hco : length (concat Csp) = (nb - 1) * bs) by (rewrite (all_len_concat_length bs) by auto; lia).
    assert (HLi : length i = nb * bs + tl) by (unfold i; rewrite !app_length; nia).
    assert (HLo : length o = nb * bs + tl) by (unfold o; rewrite !app_length; nia).
    assert (Hs1 : length src1 = bs) by (unfold src1; destruct al; lia).
    assert (Hst : length srct = tl) by (unfold srct; destruct al; lia).
    assert (ETo : firstn tl (skipn (nb * bs) o) = ot).
    { unfold o. rewrite app_assoc. replace (nb * bs) with (length (concat Csp ++ ol)) by (rewrite app_length; nia).
      rewrite skipn_app_exact by reflexivity. apply firstn_all2. lia. }
    assert (ETi : firstn tl (skipn (nb * bs) i) = it).
    { unfold i. rewrite app_assoc. replace (nb * bs) with (length (concat ibp ++ il)) by (rewrite app_length; nia).
      rewrite skipn_app_exact by reflexivity. apply firstn_all2. lia. }
    assert (ERo : firstn (bs + tl) (skipn ((nb - 1) * bs) o) = ol ++ ot).
    { unfold o. rewrite <- Hco, skipn_app_exact by reflexivity. apply firstn_all2. rewrite app_length. lia. }
    assert (ERi : firstn (bs + tl) (skipn ((nb - 1) * bs) i) = il ++ it).
    { unfold i. rewrite <- Hci, skipn_app_exact by reflexivity. apply firstn_all2. rewrite app_length. lia. }
    assert (Esrc : (if al then ol ++ ot else il ++ it) = src1 ++ srct) by (unfold src1, srct; destruct al; reflexivity).
    assert (Eo : o = concat Csp ++ (ol ++ ot)) by reflexivity.
    assert (ERx : forall x : list N, length x = bs + tl -> firstn (bs + tl) (skipn ((nb - 1) * bs) (concat Csp ++ x)) = x).
    { intros x Hx. rewrite <- Hco, skipn_app_exact by reflexivity. apply firstn_all2. lia. }
    assert (EWx : forall x y : list N, length x = bs + tl -> MirSem.splice ((nb - 1) * bs) (bs + tl) y (concat Csp ++ x) = concat Csp ++ y).
    { intros x y Hx. unfold MirSem.splice. rewrite <- Hco at 1. rewrite firstn_app_exact by reflexivity.
      rewrite skipn_all2 by (rewrite app_length; lia). rewrite app_nil_r. reflexivity. }
    assert (EB2d : B2d = c_D C (skipn tl (src1 ++ srct))) by reflexivity.
    assert (Eb1' : b1' = firstn tl src1 ++ skipn tl B2d) by reflexivity.
    assert (EB2 : B2 = xor_into B2d b1') by reflexivity.
    assert (EB1 : B1 = xor_into (c_D C b1') iv1) by reflexivity.
    clearbody i o B1. clearbody B2. clearbody b1'. clearbody B2d. clearbody src1 srct. unfold envA. cbn [skipn fn_body cts__cbc_cs1__BlockCipherDecClosure__Closure__call].
    run_prefix 1. fold bs. unfold block in *.
    repeat first [ok_check' | progress (rewrite ?HLo, ?HLi, ?ETo, ?ETi, ?Hot, ?Hit)].
    run_prefix 3. fold bs. unfold block in *.
    repeat first [ok_check' | progress (rewrite ?HLo, ?HLi, ?ETo, ?ETi, ?Hot, ?Hit)].
    replace (nb * bs + tl - (bs + tl)) with ((nb - 1) * bs) by nia.
    run_prefix 1. fold bs. unfold block in *.
    repeat first [ok_check' | progress (rewrite ?HLo, ?HLi)].
    replace (nb * bs + tl - (nb - 1) * bs) with (bs + tl) by nia.
    run_prefix 1. fold bs. unfold block in *.
    repeat first [ok_check' | progress (rewrite ?HLo, ?HLi, ?ERo, ?ERi, ?app_length, ?Hol, ?Hot)].
    replace (bs + tl - bs) with tl by lia.
    run_prefix 1. fold bs. unfold block in *.
    assert (Eb1 : firstn (bs - 0) (skipn 0 (src1 ++ srct)) = src1).
    { cbn [skipn]. rewrite Nat.sub_0_r, <- Hs1, firstn_app_exact by reflexivity. reflexivity. }
    repeat first [ok_check' | progress (rewrite ?HLo, ?HLi, ?ERo, ?ERi, ?Esrc, ?Eb1, ?app_length, ?Hs1, ?Hst)].
    run_prefix 1. fold bs. unfold block in *.
    repeat first [ok_check' | progress (rewrite ?HLo, ?HLi, ?ERo, ?ERi, ?Esrc, ?app_length, ?Hs1, ?Hst)].
    replace (bs + tl - tl) with bs by lia.
    assert (Eb2 : firstn bs (skipn tl (src1 ++ srct)) = skipn tl (src1 ++ srct)) by (apply firstn_all2; rewrite skipn_length, app_length; lia).
    rewrite ?Eb2.
    repeat first [ok_check' | progress (rewrite ?skipn_length, ?app_length, ?Hs1, ?Hst)].
    assert (Hb20 : length (skipn tl (src1 ++ srct)) = bs) by (rewrite skipn_length, app_length; lia).
    unfold bs. run_prefix 1. fold bs. rewrite <- EB2d.
    assert (HB2d : length B2d = bs) by (rewrite EB2d; apply D_len; exact Hb20).
    run_prefix 1. fold bs. unfold block in *.
    repeat first [ok_check' | progress (rewrite ?HB2d, ?Hs1, ?firstn_length, ?skipn_length)].
    assert (Emx : MirSem.splice tl (bs - tl) (firstn (bs - tl) (skipn tl B2d)) src1 = firstn tl src1 ++ skipn tl B2d).
    { unfold MirSem.splice. f_equal. rewrite (skipn_all2 src1) by lia. rewrite app_nil_r. apply firstn_all2. rewrite skipn_length. lia. }
    rewrite ?Emx. rewrite <- Eb1'.
    assert (Hb1' : length b1' = bs) by (rewrite Eb1', app_length, firstn_length, skipn_length; lia).
    unfold bs. run_prefix 1. fold bs. rewrite <- EB2.
    assert (HB2 : length B2 = bs) by (rewrite EB2, xor_into_length; exact HB2d).
    unfold bs. run_prefix 2. fold bs. rewrite <- EB1.
    assert (HB1 : length B1 = bs) by (rewrite EB1, xor_into_length; apply D_len; exact Hb1').
    run_prefix 1. fold bs. unfold block in *.
    repeat first [ok_check' | progress (rewrite ?HLo, ?HLi, ?ERo, ?app_length, ?Hol, ?Hot, ?HB1)].
    assert (Ew1 : MirSem.splice 0 (bs - 0) B1 (ol ++ ot) = B1 ++ ot).
    { rewrite Nat.sub_0_r. apply seg_write_head. lia. }
    rewrite Ew1, Eo, (EWx (ol ++ ot) (B1 ++ ot)) by (rewrite app_length; lia).
    repeat first [ok_check' | progress (rewrite ?app_length, ?Hol, ?Hot, ?HB1, ?Hco)].
    run_rest. fold bs. unfold block in *.
    repeat first [ok_check' | progress (rewrite ?HLi, ?(ERx (B1 ++ ot)), ?app_length, ?Hol, ?Hot, ?HB1, ?HB2, ?Hco, ?firstn_length, ?skipn_length by (rewrite app_length; lia))].
    assert (Ew3 : MirSem.splice bs (bs + tl - bs) (firstn (tl - 0) (skipn 0 B2)) (B1 ++ ot) = B1 ++ firstn tl B2).
    { cbn [skipn]. rewrite Nat.sub_0_r. unfold MirSem.splice. rewrite <- HB1 at 1. rewrite firstn_app_exact by reflexivity.
      rewrite skipn_all2 by (rewrite app_length; lia). rewrite app_nil_r. reflexivity. }
    rewrite Ew3, (EWx (B1 ++ ot) (B1 ++ firstn tl B2)) by (rewrite app_length; lia).
    repeat first [ok_check' | progress (rewrite ?app_length, ?firstn_length, ?HB1, ?HB2, ?Hco)].
    eexists. split; [reflexivity|]. reflexivity.
  Qed.

  Lemma map2_app_l {A B Cc} (f : A -> B -> Cc) a1 a2 b1 b2 : length a1 = length b1 -> map2 f (a1 ++ a2) (b1 ++ b2) = map2 f a1 b1 ++ map2 f a2 b2.
  Proof. revert b1; induction a1 as [|x a1 IH]; intros [|y b1] H; cbn in *; try discriminate; auto. f_equal. apply IH. lia. Qed.

  (* the statements up to and including the bulk decryption, when a tail exists: all whole blocks but the last *)
  Lemma cbc_cs1_dec_head (iv : list N) (al : bool) (ibp : list (list N)) (il it : list N) (obp : list (list N)) (ol ot : list N) nb tl :
    length iv = bs -> all_len bs ibp -> all_len bs obp -> length il = bs -> length ol = bs ->
    length ibp = nb - 1 -> length obp = nb - 1 -> 1 <= nb -> length it = tl -> length ot = tl -> 0 < tl < bs ->
    let i := concat (ibp ++ [il]) ++ it in let o := concat (obp ++ [ol]) ++ ot in
    let Csp := cbc_dec_spec (c_D C) iv (map rd_in (map2 (mkcell al) ibp obp)) in
    let iv1 := cbc_chain iv (map rd_in (map2 (mkcell al) ibp obp)) in
    run_stmts (evalC X) (cenv false iv al i o) (firstn 4 (fn_body cts__cbc_cs1__BlockCipherDecClosure__Closure__call) ++ [SItem ""])
      = Some (Norm (envA iv iv1 al i o (concat Csp ++ ol ++ ot) nb tl) (RV VUnit)).
  Proof.
    intros Hiv Hibp Hobp Hil Hol Hk1 Hk2 Hnb1 Hit Hot Htl i o Csp iv1. unfold block in *.
    assert (Hib : all_len bs (ibp ++ [il])) by (apply Forall_app; split; auto).
    assert (Hob : all_len bs (obp ++ [ol])) by (apply Forall_app; split; auto).
    assert (Hibl : length (ibp ++ [il]) = nb) by (rewrite app_length; cbn [length]; lia).
    assert (Hobl : length (obp ++ [ol]) = nb) by (rewrite app_length; cbn [length]; lia).
    assert (Hci : length (concat (ibp ++ [il])) = nb * bs) by (rewrite (all_len_concat_length bs) by auto; lia).
    assert (Hco : length (concat (obp ++ [ol])) = nb * bs) by (rewrite (all_len_concat_length bs) by auto; lia).
    assert (HLi : length i = nb * bs + tl) by (unfold i; rewrite app_length; lia).
    assert (HLo : length o = nb * bs + tl) by (unfold o; rewrite app_length; lia).
    assert (Hdiv : ndiv (length o) bs = nb).
    { unfold ndiv. rewrite HLo. symmetry. apply (Nat.div_unique _ _ _ tl); lia. }
    assert (F0 : in_range 0 (c_bs C) = true) by (apply in_range_true; fold bs; lia).
    assert (Ecl : cells_of bs al (firstn (nb * bs) (skipn 0 i)) (firstn (nb * bs) (skipn 0 o)) = map2 (mkcell al) ibp obp ++ [mkcell al il ol]).
    { unfold i, o. cbn [skipn]. unfold cells_of. rewrite <- Hci at 1. rewrite <- Hco. rewrite !firstn_app_exact by reflexivity.
      rewrite !(chunks_blocks_only C) by auto. cbn [fst]. change [mkcell al il ol] with (map2 (mkcell al) [il] [ol]). apply map2_app_l. unfold block in *. lia. }
    assert (ETo : firstn tl (skipn (nb * bs) o) = ot).
    { unfold o. rewrite <- Hco, skipn_app_exact by reflexivity. apply firstn_all2. lia. }
    assert (ETi : firstn tl (skipn (nb * bs) i) = it).
    { unfold i. rewrite <- Hci, skipn_app_exact by reflexivity. apply firstn_all2. lia. }
    assert (Hcp : length (map2 (mkcell al) ibp obp) = nb - 1) by (rewrite map2_length; unfold block in *; lia).
    assert (HCsp : length Csp = nb - 1 /\ all_len bs Csp).
    { unfold Csp. destruct (cbc_dec_h_ok C Cwf iv Hiv (map rd_in (map2 (mkcell al) ibp obp))) as [H1 H2].
      - apply all_len_rd_in_mkcell; auto; lia.
      - split; [transitivity (length (map rd_in (map2 (mkcell al) ibp obp))); [exact H1 | rewrite map_length; exact Hcp] | exact H2]. }
    destruct HCsp as [HCl HCa].
    assert (Eed : cd_cs C iv (map2 (mkcell al) ibp obp) = map2 wr_out (map2 (mkcell al) ibp obp) Csp).
    { unfold cd_cs. rewrite cts_cbc_dec_eq. reflexivity. }
    assert (Eiv : cd_iv C iv (map2 (mkcell al) ibp obp) = iv1).
    { unfold cd_iv. rewrite cts_cbc_dec_eq. reflexivity. }
    assert (Eo : o = concat obp ++ ol ++ ot).
    { unfold o. rewrite concat_app. cbn [concat]. rewrite app_nil_r, <- app_assoc. reflexivity. }
    clearbody i o Csp iv1. unfold cenv.
    Opaque cd_iv cd_cs cells_of outs_of.
    cbn [firstn fn_body cts__cbc_cs1__BlockCipherDecClosure__Closure__call app].
    run_prefix 2. fold bs. rewrite Hdiv. replace (length o - nb * bs) with tl by lia.
    rewrite run_if_mid by discriminate.
    match goal with |- context [evalC ?X0 ?e0 ?c0] => eval_sub (evalC X0 e0 c0) end. fold bs. unfold block in *.
    repeat first [ok_check' | progress (rewrite ?HLo, ?HLi, ?ETo, ?Hot)].
    try replace (len_eq tl 0) with false by (symmetry; apply len_eq_false; lia). cbn [negb].
    pick_branch. unfold run_block.
    run_prefix 1. fold bs. unfold block in *.
    repeat first [ok_check' | progress (rewrite ?HLo, ?HLi, ?Ecl, ?app_length, ?Hcp) | progress (cbn [length])].
    replace (nb - 1 + 1 - 1) with (nb - 1) by lia.
    run_rest. fold bs. unfold block in *.
    repeat first [ok_check' | progress (rewrite ?HLo, ?HLi, ?Ecl, ?app_length, ?Hcp) | progress (cbn [length])].
    cbv beta iota delta [pop_to elen edrop psub].
    run_prefix 1. fold bs. unfold block in *.
    repeat first [ok_check' | progress (rewrite ?HLo, ?HLi, ?Ecl, ?app_length, ?Hcp) | progress (cbn [length])].
    unfold block in *. set (cellsP := map2 (mkcell al) ibp obp) in *. set (cL := mkcell al il ol) in *.
    assert (Efn : firstn (nb - 1) (skipn 0 (cellsP ++ [cL])) = cellsP).
    { cbn [skipn]. rewrite <- Hcp, firstn_app_exact by reflexivity. reflexivity. }
    assert (Ecs : forall Xc, csplice 0 (nb - 1) Xc (cellsP ++ [cL]) = Xc ++ [cL]).
    { intros Xc. unfold csplice. cbn [firstn app Nat.add]. rewrite <- Hcp, skipn_app_exact by reflexivity. reflexivity. }
    assert (Eou : outs_of (map2 wr_out cellsP Csp ++ [cL]) = concat Csp ++ ol).
    { Transparent outs_of. unfold outs_of. Opaque outs_of. rewrite map_app, concat_app. rewrite map_cout_wr by (transitivity (nb - 1); [exact Hcp | symmetry; exact HCl]).
      cbn [map concat cL cout]. rewrite app_nil_r. reflexivity. }
    assert (Hcsl : length (concat Csp) = (nb - 1) * bs) by (rewrite (all_len_concat_length bs) by auto; unfold block in *; lia).
    assert (Esp : MirSem.splice 0 (nb * bs) (concat Csp ++ ol) o = concat Csp ++ ol ++ ot).
    { rewrite Eo. replace (concat obp ++ ol ++ ot) with ((concat obp ++ ol) ++ ot) by (rewrite <- app_assoc; reflexivity).
      rewrite seg_write_head, <- app_assoc; [reflexivity|]. rewrite app_length, (all_len_concat_length bs) by auto. unfold block in *. nia. }
    repeat match goal with |- context [firstn (nb - 1) (skipn 0 ?x)] => replace (firstn (nb - 1) (skipn 0 x)) with cellsP by (symmetry; exact Efn) end.
    repeat match goal with |- context [cd_cs C iv ?x] => replace (cd_cs C iv x) with (map2 wr_out cellsP Csp) by (symmetry; exact Eed) end.
    repeat match goal with |- context [cd_iv C iv ?x] => replace (cd_iv C iv x) with iv1 by (symmetry; exact Eiv) end.
    repeat match goal with |- context [csplice 0 (nb - 1) ?a ?b] => replace (csplice 0 (nb - 1) a b) with (a ++ [cL]) by (symmetry; exact (Ecs a)) end.
    repeat match goal with |- context [outs_of ?a] => replace (outs_of a) with (concat Csp ++ ol) by (symmetry; exact Eou) end.
    repeat match goal with |- context [MirSem.splice 0 (nb * bs) ?a o] => replace (MirSem.splice 0 (nb * bs) a o) with (concat Csp ++ ol ++ ot) by (symmetry; exact Esp) end.
    repeat first [ok_check' | progress (rewrite ?map2_length, ?app_length, ?Hcp, ?HCl, ?Nat.min_id, ?Hcsl, ?Hol)].
    match goal with |- context [len_eq ?a (nb - 1)] => replace (len_eq a (nb - 1)) with true
      by (symmetry; apply len_eq_true; transitivity (Nat.min (nb - 1) (nb - 1)); [f_equal; [exact Hcp | exact HCl] | apply Nat.min_id]) end.
    cbv beta iota. unfold envA. reflexivity.
  Qed.
End CbcCs1DecB.

Section CbcCs1Dec.
  Variable C : cipher.
  Let bs := c_bs C.
  Hypothesis Cwf : cipher_wf C.
  Let bs_pos : 0 < bs.
  Proof. destruct Cwf as (H & _). exact H. Qed.
  Let D_len : forall x, length x = bs -> length (c_D C x) = bs.
  Proof. destruct Cwf as (_ & _ & _ & H). exact H. Qed.
  Let X := bctx C [("cbc_dec", FSem (cbc_dec_sem C)); ("xor", FSem xor_sem)]
                  [("into_chunks::BS", VNat bs); ("Block::<B>::default()", VBlk (zeros bs)); ("B::BlockSize::USIZE", VNat bs); ("try_into::LEN", VNat bs)].

  Lemma tie_cts__cbc_cs1__BlockCipherDecClosure__Closure__call iv al ib it ob ot :
    length iv = bs -> all_len bs ib -> all_len bs ob -> length ib = length ob -> 1 <= length ib ->
    length it = length ot -> length ot < bs ->
    exists e' o', run_body X (cenv false iv al (concat ib ++ it) (concat ob ++ ot)) cts__cbc_cs1__BlockCipherDecClosure__Closure__call = Some (e', VUnit)
      /\ lookup "buf" e' = Some (VBuf al (concat ib ++ it) o')
      /\ cbc_cs1_dec C iv (mkmem al (concat ib ++ it) (concat ob ++ ot)) = Ok (mkmem al (concat ib ++ it) o').
  Proof.
    intros Hiv Hib Hob Hnb Hnb1 Htl Htl2. unfold run_body. unfold block in *.
    remember (length ib) as nb eqn:Enb.
    remember (length ot) as tl eqn:Etl.
    assert (Hci : length (concat ib) = nb * bs) by (rewrite (all_len_concat_length bs) by auto; lia).
    assert (Hco : length (concat ob) = nb * bs) by (rewrite (all_len_concat_length bs) by auto; lia).
    assert (HLi : length (concat ib ++ it) = nb * bs + tl) by (rewrite app_length; lia).
    assert (HLo : length (concat ob ++ ot) = nb * bs + tl) by (rewrite app_length; lia).
    assert (Hdiv : ndiv (length (concat ob ++ ot)) bs = nb).
    { unfold ndiv. rewrite HLo. symmetry. apply (Nat.div_unique _ _ _ tl); lia. }
    assert (Hd : length (concat ob ++ ot) / bs = nb) by (rewrite HLo; symmetry; apply (Nat.div_unique _ _ _ tl); lia).
    assert (Hm : length (concat ob ++ ot) mod bs = tl) by (rewrite HLo; symmetry; apply (Nat.mod_unique _ _ nb); lia).
    assert (F0 : in_range 0 (c_bs C) = true) by (apply in_range_true; fold bs; lia).
    assert (EclZ : forall Z ot', all_len bs Z -> length Z = nb ->
              cells_of bs al (firstn (nb * bs) (skipn 0 (concat ib ++ it))) (firstn (nb * bs) (skipn 0 (concat Z ++ ot'))) = map2 (mkcell al) ib Z).
    { intros Z ot' HZ HZl. cbn [skipn]. unfold cells_of.
      assert (HZc : length (concat Z) = nb * bs) by (rewrite (all_len_concat_length bs) by auto; unfold block in *; nia).
      rewrite <- Hci at 1. rewrite <- HZc. rewrite !firstn_app_exact by reflexivity. rewrite !(chunks_blocks_only C) by auto. reflexivity. }
    assert (ET : forall (Z : list (list N)) (ot' : list N), all_len bs Z -> length Z = nb -> firstn tl (skipn (nb * bs) (concat Z ++ ot')) = firstn tl ot').
    { intros Z ot' HZ HZl. assert (HZc : length (concat Z) = nb * bs) by (rewrite (all_len_concat_length bs) by auto; unfold block in *; nia).
      rewrite <- HZc, skipn_app_exact by reflexivity. reflexivity. }
    assert (EI : firstn tl (skipn (nb * bs) (concat ib ++ it)) = it).
    { rewrite <- Hci, skipn_app_exact by reflexivity. apply firstn_all2. lia. }
    Opaque cd_iv cd_cs cells_of outs_of.
    destruct (Nat.eq_dec tl 0) as [Htl0|Htl0].
    - (* whole blocks only: plain CBC *)
      run_prefix 2. fold bs. rewrite Hdiv. replace (length (concat ob ++ ot) - nb * bs) with tl by lia.
      run_prefix 1. fold bs. unfold block in *.
      repeat first [ok_check | progress (rewrite ?HLo, ?HLi, ?(ET ob ot Hob (eq_sym Hnb)), ?EI, ?(firstn_all2 ot), ?firstn_length, ?skipn_length by lia) | progress (rewrite <- ?Etl)].
      destruct (bulkS C bs_pos (cts_cbc_dec C) (fun iv bl => cbc_chain iv bl) (fun iv bl => cbc_dec_spec (c_D C) iv bl) (cts_cbc_dec_eq C)
                 iv al ib it ob ot nb (cbc_dec_h_ok C Cwf iv Hiv) Hib Hob (eq_sym Enb) (eq_sym Hnb) (eq_trans Htl Etl))
        as (Ecells & HCl & HCa & Ecbc & Eouts & Emain).
      fold bs in Ecells, HCl, HCa, Ecbc, Eouts, Emain.
      remember (cbc_dec_spec (c_D C) iv (map rd_in (map2 (mkcell al) ib ob))) as Cs eqn:ECs.
      assert (Hol : length (concat Cs) = nb * bs).
      { rewrite (all_len_concat_length bs) by auto. unfold block in *. nia. }
      assert (Eo1 : MirSem.splice 0 (nb * bs) (concat Cs) (concat ob ++ ot) = concat Cs ++ ot).
      { apply seg_write_head. lia. }
      run_prefix 1. fold bs. unfold block in *.
      repeat first [ok_check | progress (rewrite ?HLo, ?HLi)].
      match goal with |- context [outs_of (cd_cs C iv ?a)] => replace (outs_of (cd_cs C iv a)) with (concat Cs) by (symmetry; exact Eouts) end.
      repeat first [ok_check | progress (rewrite ?HLo, ?HLi, ?Hol, ?Eo1)].
      assert (HL1 : length (concat Cs ++ ot) = nb * bs + tl) by (rewrite app_length; lia).
      run_prefix 1. fold bs. unfold block in *.
      repeat first [ok_check | progress (rewrite ?HL1, ?HLi, ?(ET Cs ot HCa HCl), ?(firstn_all2 ot), ?firstn_length, ?skipn_length by lia) | progress (rewrite <- ?Etl)].
      replace (len_eq tl 0) with true by (symmetry; apply len_eq_true; exact Htl0). cbv beta iota.
      eexists _, _. split; [reflexivity|]. split; [reflexivity|].
      unfold cbc_cs1_dec, cs12_dec_main. fold bs. unfold mlen. cbn [m_out]. rewrite Hd, Hm.
      replace (Nat.ltb (length (concat ob ++ ot)) bs) with false by (symmetry; apply Nat.ltb_ge; nia).
      replace (Nat.eqb tl 0) with true by (symmetry; apply Nat.eqb_eq; exact Htl0).
      unfold block in *. rewrite Emain. cbn [obind]. destruct (cts_cbc_dec C iv _). reflexivity.
    - (* a partial last block: un-stealing *)
      destruct (exists_last (l := ib)) as (ibp & il & Eib). { intros E0; rewrite E0 in Enb; cbn in Enb; lia. }
      destruct (exists_last (l := ob)) as (obp & ol & Eob). { intros E0; rewrite E0 in Hnb; cbn in Hnb; lia. }
      subst ib ob. apply Forall_app in Hib. destruct Hib as [Hibp Hil]. apply Forall_app in Hob. destruct Hob as [Hobp Hol].
      assert (Hil' : length il = bs) by (inversion Hil; auto). assert (Hol' : length ol = bs) by (inversion Hol; auto). clear Hil Hol.
      rewrite app_length in Enb, Hnb. cbn [length] in Enb, Hnb.
      set (cellsPin := map rd_in (map2 (mkcell al) ibp obp)) in *.
      assert (Hcin : all_len bs cellsPin) by (apply all_len_rd_in_mkcell; auto; lia).
      pose proof (cbc_cs1_dec_head C Cwf iv al ibp il it obp ol ot nb tl Hiv Hibp Hobp Hil' Hol' ltac:(lia) ltac:(lia) ltac:(lia) Htl (eq_sym Etl) ltac:(lia)) as HA.
      cbv zeta in HA. fold cellsPin in HA.
      set (Csp := cbc_dec_spec (c_D C) iv cellsPin) in *. set (iv1 := cbc_chain iv cellsPin) in *.
      destruct (cbc_dec_h_ok C Cwf iv Hiv cellsPin Hcin) as [HCl0 HCa]. fold bs in HCa. fold Csp in HCl0, HCa.
      assert (HCl : length Csp = nb - 1) by (rewrite HCl0; unfold cellsPin; rewrite map_length, map2_length; unfold block in *; lia).
      assert (Hiv1 : length iv1 = bs) by (apply (cbc_chain_len C); auto).
      assert (Ei : concat (ibp ++ [il]) ++ it = concat ibp ++ il ++ it) by (rewrite concat_app; cbn [concat]; rewrite app_nil_r, <- app_assoc; reflexivity).
      destruct (cbc_cs1_dec_tail C Cwf iv iv1 al ibp il it Csp ol ot (concat (obp ++ [ol]) ++ ot) nb tl Hiv1 Hibp HCa Hil' Hol' ltac:(lia) HCl ltac:(lia) Htl (eq_sym Etl) ltac:(lia))
        as (e' & HB & Hbuf). cbv zeta in HB, Hbuf. rewrite <- Ei in HB, Hbuf.
      set (i := concat (ibp ++ [il]) ++ it) in *. set (o := concat (obp ++ [ol]) ++ ot) in *.
      change (fn_body cts__cbc_cs1__BlockCipherDecClosure__Closure__call)
        with (firstn 4 (fn_body cts__cbc_cs1__BlockCipherDecClosure__Closure__call) ++ skipn 4 (fn_body cts__cbc_cs1__BlockCipherDecClosure__Closure__call)).
      rewrite run_stmts_app by discriminate. unfold X. fold bs in HA, HB. rewrite HA, HB.
      eexists e', _. split; [reflexivity|]. split; [exact Hbuf|].
      destruct (bulkS C bs_pos (cts_cbc_dec C) (fun iv bl => cbc_chain iv bl) (fun iv bl => cbc_dec_spec (c_D C) iv bl) (cts_cbc_dec_eq C)
                 iv al ibp (il ++ it) obp (ol ++ ot) (nb - 1) (cbc_dec_h_ok C Cwf iv Hiv)
                 Hibp Hobp ltac:(lia) ltac:(lia) ltac:(rewrite !app_length; lia))
        as (_ & _ & _ & Ecbc & _ & Emain).
      fold bs in Emain, Ecbc. fold cellsPin in Emain, Ecbc. fold Csp in Emain, Ecbc. fold iv1 in Ecbc.
      assert (Eo : o = concat obp ++ ol ++ ot) by (unfold o; rewrite concat_app; cbn [concat]; rewrite app_nil_r, <- app_assoc; reflexivity).
      assert (Ei' : i = concat ibp ++ il ++ it) by exact Ei.
      rewrite <- Eo, <- Ei' in Emain, Ecbc.
      assert (HLi' : length i = nb * bs + tl) by exact HLi.
      assert (HLo' : length o = nb * bs + tl) by exact HLo.
      unfold cbc_cs1_dec, cs12_dec_main. fold bs. unfold mlen. cbn [m_out]. fold o. rewrite Hd, Hm.
      replace (Nat.ltb (length o) bs) with false by (symmetry; apply Nat.ltb_ge; nia).
      replace (Nat.eqb tl 0) with false by (symmetry; apply Nat.eqb_neq; lia).
      unfold usub at 1. replace (Nat.leb 1 nb) with true by (symmetry; apply Nat.leb_le; lia). cbn [obind].
      rewrite Emain. cbn [obind]. rewrite Ecbc. cbn [fst].
      unfold usub. rewrite HLo'. replace (Nat.leb (bs + tl) (nb * bs + tl)) with true by (symmetry; apply Nat.leb_le; nia). cbn [obind].
      replace (nb * bs + tl - (bs + tl)) with ((nb - 1) * bs) by nia.
      assert (Hsl : forall (P x t : list N), length P = (nb - 1) * bs -> length x = bs -> length t = tl ->
                slice (P ++ x ++ t) ((nb - 1) * bs) ((nb - 1) * bs + bs) = Ok x /\
                slice (P ++ x ++ t) ((nb - 1) * bs + tl) ((nb - 1) * bs + tl + bs) = Ok (skipn tl (x ++ t))).
      { intros P x t HP Hx Ht. unfold slice. rewrite !app_length, HP, Hx, Ht.
        replace (Nat.leb ((nb - 1) * bs) ((nb - 1) * bs + bs)) with true by (symmetry; apply Nat.leb_le; lia).
        replace (Nat.leb ((nb - 1) * bs + bs) ((nb - 1) * bs + (bs + tl))) with true by (symmetry; apply Nat.leb_le; lia).
        replace (Nat.leb ((nb - 1) * bs + tl) ((nb - 1) * bs + tl + bs)) with true by (symmetry; apply Nat.leb_le; lia).
        replace (Nat.leb ((nb - 1) * bs + tl + bs) ((nb - 1) * bs + (bs + tl))) with true by (symmetry; apply Nat.leb_le; lia).
        cbn [andb]. replace ((nb - 1) * bs + bs - (nb - 1) * bs) with bs by lia. replace ((nb - 1) * bs + tl + bs - ((nb - 1) * bs + tl)) with bs by lia.
        split.
        - rewrite <- HP, skipn_app_exact by reflexivity. rewrite <- Hx, firstn_app_exact by reflexivity. reflexivity.
        - rewrite <- HP. rewrite skipn_app, skipn_all2 by lia. replace (length P + tl - length P) with tl by lia. cbn [app].
          rewrite firstn_all2 by (rewrite skipn_length, app_length; lia). reflexivity. }
      assert (Hcsl : length (concat Csp) = (nb - 1) * bs) by (rewrite (all_len_concat_length bs) by auto; unfold block in *; lia).
      assert (Hcil : length (concat ibp) = (nb - 1) * bs) by (rewrite (all_len_concat_length bs) by auto; unfold block in *; lia).
      assert (Hput : forall a inn (P x t b1 b2 : list N), length P = (nb - 1) * bs -> length x = bs -> length t = tl -> length b1 = bs -> length b2 = bs ->
                (do m2 <- mput_out (mkmem a inn (P ++ x ++ t)) ((nb - 1) * bs) b1; mput_out m2 ((nb - 1) * bs + bs) (firstn tl b2))
                = Ok (mkmem a inn (P ++ b1 ++ firstn tl b2))).
      { intros a inn P x t b1 b2 HP Hx Ht Hb1 Hb2. unfold mput_out at 1. cbn [m_al m_in m_out]. rewrite !app_length, HP, Hx, Ht, Hb1.
        replace (Nat.leb ((nb - 1) * bs + bs) ((nb - 1) * bs + (bs + tl))) with true by (symmetry; apply Nat.leb_le; lia). cbn [obind].
        assert (S1 : splice (P ++ x ++ t) ((nb - 1) * bs) b1 = P ++ b1 ++ t).
        { unfold splice. rewrite <- HP, firstn_app_exact by reflexivity. rewrite skipn_app, skipn_all2 by lia.
          replace (length P + length b1 - length P) with (length x) by lia. cbn [app]. rewrite skipn_app_exact by reflexivity. reflexivity. }
        rewrite S1. unfold mput_out. cbn [m_al m_in m_out]. rewrite !app_length, HP, Hb1, Ht, firstn_length, Hb2.
        replace (Nat.leb ((nb - 1) * bs + bs + Nat.min tl bs) ((nb - 1) * bs + (bs + tl))) with true by (symmetry; apply Nat.leb_le; lia).
        do 2 f_equal. unfold splice. replace ((nb - 1) * bs + bs) with (length (P ++ b1)) by (rewrite app_length; lia).
        rewrite (app_assoc P b1 t), firstn_app_exact by reflexivity. rewrite <- app_assoc. do 2 f_equal.
        rewrite skipn_all2 by (rewrite !app_length, firstn_length; lia). rewrite app_nil_r. reflexivity. }
      assert (HDl : forall x : list N, length x = bs -> length (c_D C x) = bs) by exact D_len.
      unfold mget_in, msrc. cbn [m_al m_in m_out]. rewrite Ei'.
      assert (Hx : forall x t : list N, length x = bs -> length t = tl ->
                let b2d := c_D C (skipn tl (x ++ t)) in let b1' := firstn tl x ++ skipn tl b2d in
                length b2d = bs /\ length b1' = bs /\ xor_into (c_D C b1') iv1 = xorb (c_D C b1') iv1 /\ xor_into b2d b1' = xorb b2d b1').
      { intros x t Hxl Htl' b2d b1'. assert (H1 : length b2d = bs) by (apply HDl; rewrite skipn_length, app_length; lia).
        assert (H2 : length b1' = bs) by (unfold b1'; rewrite app_length, firstn_length, skipn_length; lia).
        repeat split; auto; apply xor_into_eq; rewrite ?HDl; auto; lia. }
      destruct al.
      + destruct (Hsl (concat Csp) ol ot Hcsl Hol' (eq_sym Etl)) as [S1 S2]. rewrite S1. cbn [obind]. rewrite S2. cbn [obind].
        destruct (Hx ol ot Hol' (eq_sym Etl)) as (X1 & X2 & X3 & X4). cbv zeta in X1, X2, X3, X4. rewrite X3, X4.
        apply Hput; auto.
        * rewrite xorb_length, HDl by auto. lia.
        * rewrite xorb_length, X1, X2. lia.
      + destruct (Hsl (concat ibp) il it Hcil Hil' Htl) as [S1 S2]. rewrite S1. cbn [obind]. rewrite S2. cbn [obind].
        destruct (Hx il it Hil' Htl) as (X1 & X2 & X3 & X4). cbv zeta in X1, X2, X3, X4. rewrite X3, X4.
        apply Hput; auto.
        * rewrite xorb_length, HDl by auto. lia.
        * rewrite xorb_length, X1, X2. lia.
  Qed.
End CbcCs1Dec.
