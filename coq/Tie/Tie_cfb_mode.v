(* Tie_cfb_mode.v -- the translated block-level bodies of cfb-mode/src/{encrypt,decrypt}.rs compute what the
   model (the cfb_ definitions of BlockModes.v) computes.  The buffered types (BufEncryptor / BufDecryptor) are
   pinned syntactically (Pins_cfb_mode_core.v) and tied to the model by the correspondence runs.
   Note the cipher handle: [VCipher true false] -- the decryptor's backend is an ENCRYPTION backend, and a call
   of `decrypt_block` on it has no meaning here, so "only the encryption direction is used" is part of the tie. *)
From BM Require Import Tie.TieLib.
From BMGen Require Import Src_cfb_mode.
Local Open Scope string_scope.
Local Open Scope list_scope.

Section Cfb.
  Variable C : cipher.
  Definition be_self (iv : block) : val := VStruct "Backend" [("iv", VBlk iv); ("cipher_backend", VCipher true false)].

  Section Single.
  Let X := bctx C [] [].

  Lemma tie_cfb_encrypt_block iv c :
    call_fn X cfb_mode__encrypt__BlockModeEncBackend__CbcEncryptBackend__encrypt_block [be_self iv; VCell c]
    = let '(iv', c') := cfb_enc_block C iv c in Some (VUnit, [be_self iv'; VCell c']).
  Proof. run_fn. reflexivity. Qed.

  Lemma tie_cfb_decrypt_block iv c :
    call_fn X cfb_mode__decrypt__BlockModeDecBackend__CbcDecryptBackend__decrypt_block [be_self iv; VCell c]
    = let '(iv', c') := cfb_dec_block C iv c in Some (VUnit, [be_self iv'; VCell c']).
  Proof. run_fn. reflexivity. Qed.

  (* inner_iv_init encrypts the IV; iv_state decrypts the stored block (the one documented use of D) *)
  Lemma tie_cfb_enc_init iv :
    call_fn X cfb_mode__encrypt__InnerIvInit__Encryptor__inner_iv_init [VCipher true false; VBlk iv]
    = Some (VStruct "Self" [("cipher", VCipher true false); ("iv", VBlk (cfb_init C iv))], [VCipher true false; VBlk iv]).
  Proof. run_fn. reflexivity. Qed.
  Lemma tie_cfb_dec_init iv :
    call_fn X cfb_mode__decrypt__InnerIvInit__Decryptor__inner_iv_init [VCipher true false; VBlk iv]
    = Some (VStruct "Self" [("cipher", VCipher true false); ("iv", VBlk (cfb_init C iv))], [VCipher true false; VBlk iv]).
  Proof. run_fn. reflexivity. Qed.
  Lemma tie_cfb_bufdec_init iv :
    call_fn X cfb_mode__decrypt__InnerIvInit__BufDecryptor__inner_iv_init [VCipher true false; VBlk iv]
    = Some (VStruct "Self" [("cipher", VCipher true false); ("iv", VBlk (cfb_init C iv)); ("pos", VLit 0)], [VCipher true false; VBlk iv]).
  Proof. run_fn. reflexivity. Qed.
  Lemma tie_cfb_bufenc_init iv :
    call_fn X cfb_mode__encrypt_buf__InnerIvInit__BufEncryptor__inner_iv_init [VCipher true false; VBlk iv]
    = Some (VStruct "Self" [("cipher", VCipher true false); ("iv", VBlk (cfb_init C iv)); ("pos", VLit 0)], [VCipher true false; VBlk iv]).
  Proof. run_fn. reflexivity. Qed.

  Lemma tie_cfb_enc_iv_state st :
    let self := VStruct "Encryptor" [("cipher", VCipher true true); ("iv", VBlk st)] in
    call_fn X cfb_mode__encrypt__IvState__Encryptor__iv_state [self] = Some (VBlk (cfb_iv_state C st), [self]).
  Proof. run_fn. reflexivity. Qed.
  Lemma tie_cfb_dec_iv_state st :
    let self := VStruct "Decryptor" [("cipher", VCipher true true); ("iv", VBlk st)] in
    call_fn X cfb_mode__decrypt__IvState__Decryptor__iv_state [self] = Some (VBlk (cfb_iv_state C st), [self]).
  Proof. run_fn. reflexivity. Qed.
  End Single.

  (* the hand-written parallel body, for a batch of any non-zero width *)
  Lemma tie_cfb_decrypt_par_blocks iv cs zb : cs <> [] ->
    let X := bctx C [] [("ParBlocks::<Self>::default()", VBlks (repeat zb (length cs)))] in
    call_fn X cfb_mode__decrypt__BlockModeDecBackend__CbcDecryptBackend__decrypt_par_blocks [be_self iv; VCells cs]
    = let '(iv', cs') := cfb_dec_par C iv cs in Some (VUnit, [be_self iv'; VCells cs']).
  Proof.
    intros Hne X. unfold call_fn, call_src.
    assert (Hlen : 0 < length cs) by (destruct cs; simpl; [congruence|lia]).
    remember (map (c_E C) (map rd_in cs)) as T eqn:ET.
    assert (HT : length T = length cs) by (subst; now rewrite !map_length).
    unfold block in *.
    eval_frame.
    run_prefix 5. rewrite <- ?ET.
    run_prefix 1.
    match goal with |- context [for_each (seq ?a0 ?n) ?body ?e0] =>
      destruct (for_each_seq_inv
        (fun k e => e = [("n", VNat (length T)); ("b", VTuple [VBlks (map rd_in cs); VRef (PVar "t")]); ("t", VBlks T);
                         ("blocks", VRef (PVar "$a1")); ("$a1", VCells (upto xor_in2out k cs (iv :: T)));
                         ("self", VRef (PVar "$a0")); ("$a0", be_self iv)])
        body a0 n e0) as (e' & He & HP)
    end.
    - unfold upto. rewrite (upd_nth_split _ _ dummy_cell) by lia. destruct cs; [simpl in *; lia|]. reflexivity.
    - intros i e Hi ->. cbn [loopN]. ev_checks.
      do 2 eexists; split; [reflexivity|]. rewrite ?upd_nth_id.
      replace (nth (i - 1) T []) with (nth i (iv :: T) []) by (destruct i; [lia|]; simpl; now rewrite Nat.sub_0_r).
      rewrite upto_step by (simpl length; lia). reflexivity.
    - rewrite He, HP. clear He HP. cbv beta iota.
      replace (1 + (length T - 1)) with (length cs) by lia.
      assert (Hle : length cs <= length (iv :: T)) by (cbn [length]; lia).
      rewrite (upto_all xor_in2out cs (iv :: T) Hle).
      run_rest. evf. unfold cfb_dec_par. rewrite <- ET.
      rewrite (last_nth T iv []) by (destruct T; simpl in *; [lia|discriminate]). reflexivity.
  Qed.
End Cfb.

(* ---- C03 over the translated source: the whole block sequence ---------------------------------------- *)
From BM Require Import BlockModes_proofs Spec.
Section CfbSource.
  Variable C : cipher.
  Let X := bctx C [] [].
  Definition src_cfb_enc_step (iv : block) (c : cell) : option (block * cell) :=
    match call_fn X cfb_mode__encrypt__BlockModeEncBackend__CbcEncryptBackend__encrypt_block [be_self iv; VCell c] with
    | Some (VUnit, [VStruct _ [("iv", VBlk iv'); _]; VCell c']) => Some (iv', c') | _ => None end.
  Definition src_cfb_dec_step (iv : block) (c : cell) : option (block * cell) :=
    match call_fn X cfb_mode__decrypt__BlockModeDecBackend__CbcDecryptBackend__decrypt_block [be_self iv; VCell c] with
    | Some (VUnit, [VStruct _ [("iv", VBlk iv'); _]; VCell c']) => Some (iv', c') | _ => None end.

  (* any block cipher E (the handle offers no decryption), any block sizes *)
  Theorem C03_cfb_enc_source s cs :
    fold_src src_cfb_enc_step s cs
    = Some (last (map (c_E C) (cfb_enc_st (c_E C) s (map rd_in cs))) s, map2 wr_out cs (cfb_enc_st (c_E C) s (map rd_in cs))).
  Proof.
    rewrite (fold_src_ok src_cfb_enc_step (cfb_enc_block C) (fun _ => True) (fun _ => True)).
    - now rewrite cfb_enc_fold.
    - intros st c _ _. unfold src_cfb_enc_step, X. rewrite (tie_cfb_encrypt_block C st c).
      destruct (cfb_enc_block C st c). split; [reflexivity|exact I].
    - exact I.
    - apply Forall_forall. auto.
  Qed.

  Theorem C03_cfb_dec_source s cs :
    fold_src src_cfb_dec_step s cs
    = Some (last (map (c_E C) (map rd_in cs)) s, map2 wr_out cs (cfb_dec_st (c_E C) s (map rd_in cs))).
  Proof.
    rewrite (fold_src_ok src_cfb_dec_step (cfb_dec_block C) (fun _ => True) (fun _ => True)).
    - now rewrite cfb_dec_fold.
    - intros st c _ _. unfold src_cfb_dec_step, X. rewrite (tie_cfb_decrypt_block C st c).
      destruct (cfb_dec_block C st c). split; [reflexivity|exact I].
    - exact I.
    - apply Forall_forall. auto.
  Qed.

  (* C07 over the translated source: the hand-written parallel body = the translated single-block body block by block *)
  Theorem C07_cfb_dec_par_source iv cs zb : cs <> [] ->
    call_fn (bctx C [] [("ParBlocks::<Self>::default()", VBlks (repeat zb (length cs)))])
            cfb_mode__decrypt__BlockModeDecBackend__CbcDecryptBackend__decrypt_par_blocks [be_self iv; VCells cs]
    = match fold_src src_cfb_dec_step iv cs with
      | Some (iv', cs') => Some (VUnit, [be_self iv'; VCells cs'])
      | None => None
      end.
  Proof.
    intros Hne. rewrite (tie_cfb_decrypt_par_blocks C iv cs zb Hne).
    rewrite (fold_src_ok src_cfb_dec_step (cfb_dec_block C) (fun _ => True) (fun _ => True)).
    - now rewrite cfb_dec_par_ok.
    - intros st c _ _. unfold src_cfb_dec_step, X. rewrite (tie_cfb_decrypt_block C st c).
      destruct (cfb_dec_block C st c). split; [reflexivity|exact I].
    - exact I.
    - apply Forall_forall. auto.
  Qed.
End CfbSource.
