(* Stream_proofs.v -- keystream cores: batching independence (C07), keystream as a function of the
   block index (C04, C06), and the wrapper's refinement to an abstract byte position (C08, C10, C11). *)
From BM Require Import Stream Ctr Belt Spec BlockModes.
From Coq Require Import Lia.

Section CoreBatch.
  Context {St : Type}.
  Variable K : score St.

  Lemma gen_n_app a b st :
    gen_n K (a + b) st =
    let '(st1, x) := gen_n K a st in let '(st2, y) := gen_n K b st1 in (st2, x ++ y).
  Proof.
    revert st; induction a as [|a IH]; intros st; simpl.
    - destruct (gen_n K b st); reflexivity.
    - destruct (sc_gen K st) as [st1 blk]. rewrite IH.
      destruct (gen_n K a st1) as [st2 x]. destruct (gen_n K b st2); reflexivity.
  Qed.

  (* the backend's gen_par_ks_blocks is sc_w single generations, on every state satisfying an
     invariant P that generation preserves (P = "the state has the shape this core owns") *)
  Variable P : St -> Prop.
  Hypothesis P_gen : forall st, P st -> P (fst (sc_gen K st)).
  Hypothesis par_ok : 1 < sc_w K -> forall st, P st -> sc_gen_par K st = gen_n K (sc_w K) st.

  Lemma P_gen_n n st : P st -> P (fst (gen_n K n st)).
  Proof. revert st; induction n as [|n IH]; intros st H; simpl; auto.
    specialize (P_gen st H). destruct (sc_gen K st) as [st1 b]. specialize (IH st1 P_gen).
    destruct (gen_n K n st1); auto. Qed.

  Lemma gen_groups_ok g st : 1 < sc_w K -> P st -> gen_groups K g st = gen_n K (g * sc_w K) st.
  Proof.
    intros Hw. revert st; induction g as [|g IH]; intros st H; simpl; auto.
    rewrite par_ok, gen_n_app by auto. pose proof (P_gen_n (sc_w K) st H) as H1.
    destruct (gen_n K (sc_w K) st) as [st1 x]. rewrite IH by auto. reflexivity.
  Qed.

  (* C07 for keystream cores: n blocks through groups of w + tail = n single generations *)
  Theorem ks_blocks_gen_n n st : P st -> ks_blocks K n st = gen_n K n st.
  Proof.
    intros HP. unfold ks_blocks. destruct (Nat.ltb_spec 1 (sc_w K)) as [Hw|Hw]; auto.
    rewrite gen_groups_ok by auto.
    assert (E : n = n / sc_w K * sc_w K + n mod sc_w K).
    { rewrite Nat.mul_comm. apply Nat.div_mod. lia. }
    transitivity (gen_n K (n / sc_w K * sc_w K + n mod sc_w K) st); [|now rewrite <- E].
    rewrite gen_n_app.
    destruct (gen_n K (n / sc_w K * sc_w K) st) as [st1 x]. destruct (gen_n K (n mod sc_w K) st1); reflexivity.
  Qed.
End CoreBatch.

(* ---- CTR: parallel generation = repeated single generation ---- *)
Section CtrBatch.
  Variable F : flavor.
  Variable C : cipher.

  Fixpoint ctr_gen_n (n : nat) (cn : ctrnonce) : ctrnonce * list block :=
    match n with
    | O => (cn, [])
    | S n' => let '(cn1, b) := ctr_gen F C cn in let '(cn2, bl) := ctr_gen_n n' cn1 in (cn2, b :: bl)
    end.

  Lemma next_blocks_gen n cn :
    (let '(cn', tmp) := next_blocks F n cn in (cn', map (c_E C) tmp)) = ctr_gen_n n cn.
  Proof.
    revert cn; induction n as [|n IH]; intros cn; [reflexivity|].
    cbn [next_blocks ctr_gen_n]. unfold ctr_gen. destruct (next_block F cn) as [cn1 b].
    specialize (IH cn1). destruct (next_blocks F n cn1) as [cn2 bl]. rewrite <- IH. reflexivity.
  Qed.

  Theorem ctr_gen_par_ok cn : ctr_gen_par F C cn = ctr_gen_n (c_w C) cn.
  Proof. unfold ctr_gen_par. apply next_blocks_gen. Qed.
End CtrBatch.

(* ---- BelT ---- *)
Section BeltBatch.
  Variable C : cipher.

  Fixpoint belt_gen_n (n : nat) (st : beltst) : beltst * list block :=
    match n with
    | O => (st, [])
    | S n' => let '(st1, b) := belt_gen C st in let '(st2, bl) := belt_gen_n n' st1 in (st2, b :: bl)
    end.

  Lemma belt_tmp_gen n s si :
    (let '(s', tmp) := belt_tmp n s in (mkbelt s' si, map (c_E C) tmp)) = belt_gen_n n (mkbelt s si).
  Proof.
    revert s; induction n as [|n IH]; intros s; [reflexivity|].
    cbn [belt_tmp belt_gen_n]. unfold belt_gen. cbn [b_s b_s_init].
    specialize (IH (wrap 128 (s + 1))). destruct (belt_tmp n (wrap 128 (s + 1))) as [s2 bl].
    rewrite <- IH. reflexivity.
  Qed.

  Theorem belt_gen_par_ok st : belt_gen_par C st = belt_gen_n (c_w C) st.
  Proof. destruct st as [s si]. unfold belt_gen_par. cbn [b_s b_s_init]. apply belt_tmp_gen. Qed.
End BeltBatch.
