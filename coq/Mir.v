(* Mir.v -- abstract syntax of the Rust subset that /verif/translator (rs2v) prints the sources of
   /repo in.  The translator is purely syntactic: one constructor per syn node, paths / types /
   unsupported syntax as strings.  All meaning is given by MirSem.v. *)
From Coq Require Export String List NArith.
Export ListNotations.

Inductive pat :=
| PId (x : string)
| PWild
| PTuple (ps : list pat)
| PRef (p : pat)
| PStruct (name : string) (fs : list (string * pat)) (rest : bool)
| PPath (s : string)
| PUnsupported (s : string).

Inductive expr :=
| EPath (p : string)                              (* identifier or path, generics rendered in the string *)
| ELit (n : N) (suffix : string)
| EStr (s : string)
| EBool (b : bool)
| EField (e : expr) (f : string)
| EIndex (e i : expr)
| ERange (lo hi : option expr) (inclusive : bool)
| ERef (mutable : bool) (e : expr)
| EDeref (e : expr)
| EUn (op : string) (e : expr)
| EBin (op : string) (a b : expr)
| EAssign (l r : expr)
| EAssignOp (op : string) (l r : expr)
| ECall (f : string) (args : list expr)
| EMethod (recv : expr) (m : string) (args : list expr)
| ETuple (es : list expr)
| EStruct (name : string) (fs : list (string * expr))
| EIf (c : expr) (t e : list stmt)
| EBlock (b : list stmt)
| EFor (p : pat) (it : expr) (body : list stmt)
| ETry (e : expr)
| EReturn (e : option expr)
| ECast (e : expr) (ty : string)
| EMacro (name : string) (tokens : string)
| EClosure (ps : list pat) (body : expr)
| ECfg (cond : string) (e : expr)
| EUnsupported (s : string)
with stmt :=
| SLet (p : pat) (ty : string) (init : option expr)
| SItem (s : string)
| SExpr (e : expr) (semi : bool).

Record fndef := { fn_sig : string; fn_params : list pat; fn_body : list stmt }.

Module MirNotations.
End MirNotations.
