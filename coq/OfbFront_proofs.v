(* OfbFront_proofs.v -- C14 for OFB: the keystream core driven block-wise (and hence, by
   Wrapper_proofs.core_equals_wrapper, the byte-level Ofb wrapper on whole blocks) writes exactly what the
   block-mode encryptor / decryptor writes: input xor E^{i}(IV). *)
From BM Require Import BlockModes Spec BlockModes_proofs Plumbing Toy Ints Ctr Belt Stream Stream_proofs Interp
  Wrapper_proofs Wrapper_inst Cts_mem.
From Coq Require Import Lia.

Section OfbFront.
  Variables (C : cipher) (iv : block).
  Let E := c_E C.
  Let K := kscore C SOfb.
  Hypothesis Cwf : cipher_wf C.
  Hypothesis iv_len : length iv = c_bs C.

  Lemma ofb_ks_iter n : forall k,
    map (fun j => iter_E E (S (k + j)) iv) (seq 0 n) = ofb_ks E (iter_E E k iv) n.
  Proof.
    induction n as [|n IH]; intros k; [reflexivity|].
    cbn [seq map ofb_ks]. rewrite Nat.add_0_r. cbn [iter_E]. f_equal.
    change (E (iter_E E k iv)) with (iter_E E (S k) iv). rewrite <- seq_shift, map_map. rewrite <- (IH (S k)). apply map_ext. intros j. replace (k + S j) with (S k + j) by lia. reflexivity.
  Qed.

  Lemma map2_xor_cells_ip (bl ks : list block) :
    map cout (map2 xor_in2out (cells_ip bl) ks) = map2 xorb bl ks.
  Proof. revert ks; induction bl as [|b bl IH]; intros [|k ks]; cbn; auto. now rewrite IH. Qed.

  Theorem ofb_core_vs_block_enc nb (blocks : list block) :
    outs_of (snd (apply_ks_blocks K (ofb_at C iv nb) (cells_ip blocks))) =
    concat (ofb_spec E (iter_E E (N.to_nat nb) iv) blocks).
  Proof.
    assert (Hb : 0 < sc_bs K) by (destruct Cwf as (H & _); exact H).
    unfold apply_ks_blocks.
    rewrite (ks_blocks_at K Hb (ofb_at C iv) (ofb_KB C iv) None
               (ofb_gen_at C iv iv_len) (ofb_gen_closed C iv iv_len) (ofb_par_at C iv iv_len) (fun p _ => eq_refl)) by exact I.
    cbn [snd]. unfold outs_of. rewrite map2_xor_cells_ip. unfold cells_ip. rewrite map_length.
    rewrite (ofb_spec_ks C). f_equal. f_equal. unfold ofb_KB.
    rewrite <- ofb_ks_iter. apply map_ext. intros j. f_equal. f_equal. lia.
  Qed.
End OfbFront.
