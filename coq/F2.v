(* F2.v -- known finding F2 as a refutation in the model: a seek into block index 2^w - 1 (which is not
   a block of the keystream) succeeds, the counter wraps and keystream block 0 is handed out again. *)
From BM Require Import BlockModes Plumbing Toy Ints Ctr Belt Stream Cts Interp.
From Coq Require Import ZArith.

Definition f2_cipher : cipher := toy 4 1 DInv [1;2;3;4;5;6;7;8]%N.
Definition f2_K := kscore f2_cipher (SCtr 4 true).
Definition f2_start : wrapper cstate := from_core f2_K (core_init f2_cipher (SCtr 4 true) [9;8;7;6]%N).
Definition z8 : list N := [0;0;0;0;0;0;0;0]%N.

(* apply 8 zero bytes (= read keystream blocks 0 and 1); seek to (2^32-1)*4 + 1; apply 8 zero bytes *)
Definition f2_run : option (list N * list N) :=
  match try_apply f2_K f2_start true z8 z8 with
  | Ok (w1, first) =>
      match try_seek f2_K SN_u64 w1 ((2 ^ 32 - 1) * 4 + 1)%Z with
      | Ok w2 => match try_apply f2_K w2 true z8 z8 with Ok (_, second) => Some (first, second) | _ => None end
      | _ => None
      end
  | _ => None
  end.

Theorem f2_reuse : exists first second, f2_run = Some (first, second) /\
  (* bytes 3..7 of the second output are the first block of the keystream again *)
  firstn 4 (skipn 3 second) = firstn 4 first.
Proof. vm_compute. eexists. eexists. split; reflexivity. Qed.
