(* Outcome.v -- results of operations that Rust can refuse (Err) or abort (Panic). *)
From BM Require Export Base.

Inductive outcome (A : Type) : Type :=
| Ok (a : A)
| Err
| Panic.
Arguments Ok {A} a.
Arguments Err {A}.
Arguments Panic {A}.

Definition obind {A B} (x : outcome A) (f : A -> outcome B) : outcome B :=
  match x with Ok a => f a | Err => Err | Panic => Panic end.

Notation "'do' x <- e ; f" := (obind e (fun x => f)) (at level 200, x pattern, e at level 100, f at level 200, right associativity).

Lemma obind_ok {A B} (x : outcome A) (f : A -> outcome B) a : x = Ok a -> obind x f = f a.
Proof. intros ->. reflexivity. Qed.

(* partial primitives: what panics in Rust is Panic here *)
Definition usub (a b : nat) : outcome nat := if b <=? a then Ok (a - b) else Panic.    (* usize `a - b` (debug) *)
Definition slice {A} (l : list A) (a b : nat) : outcome (list A) :=                  (* &l[a..b]   *)
  if (a <=? b) && (b <=? length l) then Ok (firstn (b - a) (skipn a l)) else Panic.
Definition slice_from {A} (l : list A) (a : nat) : outcome (list A) :=               (* &l[a..]    *)
  if a <=? length l then Ok (skipn a l) else Panic.
Definition slice_to {A} (l : list A) (b : nat) : outcome (list A) :=                 (* &l[..b]    *)
  if b <=? length l then Ok (firstn b l) else Panic.

(* overwrite l[off .. off+|v|) with v (`copy_from_slice` into a sub-slice of the right length) *)
Definition splice {A} (l : list A) (off : nat) (v : list A) : list A :=
  firstn off l ++ v ++ skipn (off + length v) l.

Lemma splice_length {A} (l : list A) off v : off + length v <= length l -> length (splice l off v) = length l.
Proof. intros H. unfold splice. rewrite !app_length, firstn_length, skipn_length. lia. Qed.

Lemma splice_seg {A} (pre cur post v : list A) : length v = length cur ->
  splice (pre ++ cur ++ post) (length pre) v = pre ++ v ++ post.
Proof. intros H. unfold splice. rewrite firstn_app_exact by auto. rewrite H.
  rewrite (app_assoc pre cur post), skipn_app_exact; auto. now rewrite app_length. Qed.
